// Sequential stand-in for tbb::parallel_for / blocked_range (verification harness only).
#pragma once
#include <cstddef>
namespace tbb {
template <typename T>
class blocked_range {
  T b_, e_;

 public:
  blocked_range(T b, T e) : b_(b), e_(e) {}
  blocked_range(T b, T e, size_t) : b_(b), e_(e) {}
  T begin() const { return b_; }
  T end() const { return e_; }
  size_t size() const { return static_cast<size_t>(e_ - b_); }
  bool empty() const { return !(b_ < e_); }
};
template <typename Range, typename Body>
void parallel_for(const Range& range, const Body& body) {
  body(range);
}
}  // namespace tbb
