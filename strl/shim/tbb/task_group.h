// Sequential stand-in for tbb::task_group (verification harness only).
#pragma once
namespace tbb {
class task_group {
 public:
  template <typename F>
  void run(F&& f) { f(); }
  void wait() {}
};
}  // namespace tbb
