// Sequential stand-in for tbb::concurrent_hash_map (verification harness only).
#pragma once
#include <functional>
#include <string>
#include <unordered_map>
#include <utility>
namespace tbb {
template <typename K>
struct tbb_hash_compare {
  static size_t hash(const K& k) { return std::hash<K>()(k); }
  static bool equal(const K& a, const K& b) { return a == b; }
};
template <typename K, typename V, typename HashCompare = tbb_hash_compare<K>>
class concurrent_hash_map {
  struct Hasher {
    size_t operator()(const K& k) const { return HashCompare::hash(k); }
  };
  struct Eq {
    bool operator()(const K& a, const K& b) const { return HashCompare::equal(a, b); }
  };
  using Map = std::unordered_map<K, V, Hasher, Eq>;
  Map map_;

 public:
  using value_type = typename Map::value_type;
  using iterator = typename Map::iterator;
  using const_iterator = typename Map::const_iterator;
  class const_accessor {
   public:
    const value_type* p = nullptr;
    const value_type* operator->() const { return p; }
    const value_type& operator*() const { return *p; }
    bool empty() const { return p == nullptr; }
    void release() { p = nullptr; }
  };
  class accessor {
   public:
    value_type* p = nullptr;
    value_type* operator->() const { return p; }
    value_type& operator*() const { return *p; }
    bool empty() const { return p == nullptr; }
    void release() { p = nullptr; }
  };
  // "range" used with tbb::parallel_for: simply the whole container.
  struct range_type {
    Map* m;
    iterator begin() const { return m->begin(); }
    iterator end() const { return m->end(); }
  };
  range_type range() { return range_type{&map_}; }

  bool insert(accessor& a, const K& key) {
    auto r = map_.try_emplace(key);
    a.p = &*r.first;
    return r.second;
  }
  bool insert(accessor& a, const value_type& kv) {
    auto r = map_.insert(kv);
    a.p = &*r.first;
    return r.second;
  }
  bool insert(const_accessor& a, const K& key) {
    auto r = map_.try_emplace(key);
    a.p = &*r.first;
    return r.second;
  }
  bool insert(const value_type& kv) { return map_.insert(kv).second; }
  bool find(accessor& a, const K& key) {
    auto it = map_.find(key);
    if (it == map_.end()) { a.p = nullptr; return false; }
    a.p = &*it;
    return true;
  }
  bool find(const_accessor& a, const K& key) const {
    auto it = map_.find(key);
    if (it == map_.end()) { a.p = nullptr; return false; }
    a.p = &*it;
    return true;
  }
  bool erase(const K& key) { return map_.erase(key) > 0; }
  size_t size() const { return map_.size(); }
  bool empty() const { return map_.empty(); }
  void clear() { map_.clear(); }
  size_t count(const K& key) const { return map_.count(key); }
  iterator begin() { return map_.begin(); }
  iterator end() { return map_.end(); }
  const_iterator begin() const { return map_.begin(); }
  const_iterator end() const { return map_.end(); }
};
}  // namespace tbb
