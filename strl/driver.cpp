// Stand-alone driver for the TetriSched STRL back-end (verification harness, C20).
//
// Builds an expression tree from a line-based description on stdin, lowers it with the repository's own
// Expression::parse / CapacityConstraintMap / optimisation passes, and prints the generated model as JSON.
// When variable values are supplied it stores them as the solution and prints Expression::populateResults().
//
// The class below is named tetrisched::GurobiSolver on purpose: the model classes declare it as a friend,
// and the real GurobiSolver.cpp (which needs Gurobi's C++ headers) is not part of this build.
#include <algorithm>
#include <cmath>
#include <iomanip>
#include <iostream>
#include <map>
#include <sstream>
#include <string>
#include <vector>

#include "tetrisched/CapacityConstraint.hpp"
#include "tetrisched/Expression.hpp"
#include "tetrisched/OptimizationPasses.hpp"
#include "tetrisched/Partition.hpp"
#include "tetrisched/SolverModel.hpp"

namespace tetrisched {
class GurobiSolver {
 public:
  static SolverModelPtr newModel() { return std::shared_ptr<SolverModel>(new SolverModel()); }

  static std::string esc(const std::string& s) {
    std::string o;
    for (char c : s) {
      if (c == '\n' || c == '\r' || c == '\t') { o.push_back(' '); continue; }
      if (c == '"' || c == '\\') o.push_back('\\');
      o.push_back(c);
    }
    return o;
  }
  static std::string num(double v) {
    if (std::isinf(v)) return v > 0 ? "1e300" : "-1e300";
    std::ostringstream ss;
    ss << std::setprecision(17) << v;
    return ss.str();
  }

  static void dumpModel(SolverModelPtr m, std::ostream& out) {
    out << "\"vars\":[";
    bool first = true;
    for (auto& [id, v] : m->modelVariables) {
      if (!first) out << ",";
      first = false;
      out << "{\"id\":" << id << ",\"name\":\"" << esc(v->variableName) << "\",\"type\":" << static_cast<int>(v->variableType)
          << ",\"lb\":" << (v->lowerBound.has_value() ? num(v->lowerBound.value()) : "null")
          << ",\"ub\":" << (v->upperBound.has_value() ? num(v->upperBound.value()) : "null") << "}";
    }
    out << "],\"constraints\":[";
    first = true;
    for (auto& [id, c] : m->modelConstraints) {
      if (!first) out << ",";
      first = false;
      out << "{\"id\":" << id << ",\"name\":\"" << esc(c->constraintName) << "\",\"type\":" << static_cast<int>(c->constraintType)
          << ",\"rhs\":" << num(c->rightHandSide) << ",\"active\":" << (c->isActive() ? "true" : "false") << ",\"terms\":[";
      bool f2 = true;
      for (auto& [coef, var] : c->terms) {
        if (!f2) out << ",";
        f2 = false;
        out << "[" << num(coef) << "," << (var ? static_cast<long long>(var->getId()) : -1LL) << "]";
      }
      out << "]}";
    }
    out << "],\"objective\":";
    if (m->objectiveFunction) {
      out << "{\"sense\":" << static_cast<int>(m->objectiveFunction->objectiveType) << ",\"ub\":"
          << (m->objectiveFunction->getUpperBound().has_value() ? num(m->objectiveFunction->getUpperBound().value()) : "null") << ",\"terms\":[";
      bool f2 = true;
      for (auto& [coef, var] : m->objectiveFunction->terms) {
        if (!f2) out << ",";
        f2 = false;
        out << "[" << num(coef) << "," << (var ? static_cast<long long>(var->getId()) : -1LL) << "]";
      }
      out << "]}";
    } else {
      out << "null";
    }
  }

  static bool setValues(SolverModelPtr m, const std::map<uint32_t, double>& values, std::string& err) {
    // values are keyed by the rank of the variable id (ids keep growing while the process serves further cases)
    std::vector<std::pair<uint32_t, VariablePtr>> vars;
    for (auto& [id, v] : m->modelVariables) vars.push_back({id, v});
    std::sort(vars.begin(), vars.end(), [](const auto& a, const auto& b) { return a.first < b.first; });
    for (size_t rank = 0; rank < vars.size(); rank++) {
      auto it = values.find(static_cast<uint32_t>(rank));
      if (it == values.end()) {
        err = "no value for variable " + vars[rank].second->variableName;
        return false;
      }
      vars[rank].second->solutionValue = it->second;
    }
    return true;
  }
  static double objectiveValue(SolverModelPtr m) { return m->getObjectiveValue(); }
};
}  // namespace tetrisched

using namespace tetrisched;

struct NodeSpec {
  std::string kind;
  std::vector<std::string> args;
};

static bool runOneCase();

int main() {
  std::ios::sync_with_stdio(false);
  // one case per END-terminated block; the process serves cases until stdin closes
  while (runOneCase()) {
  }
  return 0;
}

static bool runOneCase() {
  Time now = 0, gran = 1;
  std::vector<std::string> passes;
  std::map<uint32_t, PartitionPtr> partitions;
  std::vector<uint32_t> partitionOrder;
  std::map<int, NodeSpec> nodes;
  std::vector<std::pair<int, int>> edges;
  int root = -1;
  bool haveValues = false;
  std::map<uint32_t, double> values;
  std::string line;
  bool sawInput = false, sawEnd = false;
  try {
    while (std::getline(std::cin, line)) {
      if (line.empty()) continue;
      sawInput = true;
      std::istringstream ss(line);
      std::string cmd;
      ss >> cmd;
      if (cmd == "NOW") ss >> now;
      else if (cmd == "GRAN") ss >> gran;
      else if (cmd == "PASS") { std::string p; ss >> p; passes.push_back(p); }
      else if (cmd == "PARTITION") {
        uint32_t id; std::string name; size_t q;
        ss >> id >> name >> q;
        partitions[id] = std::make_shared<Partition>(id, name, q);
        partitionOrder.push_back(id);
      } else if (cmd == "NODE") {
        int idx; NodeSpec n;
        ss >> idx >> n.kind;
        std::string a;
        while (ss >> a) n.args.push_back(a);
        nodes[idx] = n;
      } else if (cmd == "EDGE") { int p, c; ss >> p >> c; edges.push_back({p, c}); }
      else if (cmd == "ROOT") ss >> root;
      else if (cmd == "VALUES") {
        haveValues = true;
        int n; ss >> n;
        for (int i = 0; i < n; i++) {
          std::getline(std::cin, line);
          std::istringstream vs(line);
          uint32_t id; double v;
          vs >> id >> v;
          values[id] = v;
        }
      } else if (cmd == "END") { sawEnd = true; break; }
    }
    if (!sawInput || !sawEnd) return false;

    auto partsOf = [&](const std::vector<std::string>& a, size_t& pos) {
      Partitions ps;
      int n = std::stoi(a[pos++]);
      for (int i = 0; i < n; i++) ps.addPartition(partitions.at(static_cast<uint32_t>(std::stoul(a[pos++]))));
      return ps;
    };
    std::map<int, ExpressionPtr> exprs;
    for (auto& [idx, n] : nodes) {
      const auto& a = n.args;
      size_t pos = 0;
      std::string name = a[pos++];
      ExpressionPtr e;
      if (n.kind == "CHOOSE") {
        std::string strategy = a[pos++];
        Partitions ps = partsOf(a, pos);
        uint32_t machines = std::stoul(a[pos++]);
        Time start = std::stoul(a[pos++]);
        Time duration = std::stoul(a[pos++]);
        double utility = std::stod(a[pos++]);
        e = std::make_shared<ChooseExpression>(name, strategy, ps, machines, start, duration, utility);
      } else if (n.kind == "ALLOCATION") {
        int np = std::stoi(a[pos++]);
        PriorPlacement pp;
        for (int i = 0; i < np; i++) {
          uint32_t pid = std::stoul(a[pos++]);
          uint32_t q = std::stoul(a[pos++]);
          pp.push_back({partitions.at(pid), q});
        }
        Time start = std::stoul(a[pos++]);
        Time duration = std::stoul(a[pos++]);
        e = std::make_shared<AllocationExpression>(name, pp, start, duration);
      } else if (n.kind == "WINDOWED") {
        Partitions ps = partsOf(a, pos);
        uint32_t machines = std::stoul(a[pos++]);
        Time start = std::stoul(a[pos++]);
        Time duration = std::stoul(a[pos++]);
        Time end = std::stoul(a[pos++]);
        Time g = std::stoul(a[pos++]);
        double utility = std::stod(a[pos++]);
        e = std::make_shared<WindowedChooseExpression>(name, ps, machines, start, duration, end, g, utility);
      } else if (n.kind == "MALLEABLE") {
        Partitions ps = partsOf(a, pos);
        uint32_t slots = std::stoul(a[pos++]);
        Time start = std::stoul(a[pos++]);
        Time end = std::stoul(a[pos++]);
        Time g = std::stoul(a[pos++]);
        double utility = std::stod(a[pos++]);
        e = std::make_shared<MalleableChooseExpression>(name, ps, slots, start, end, g, utility);
      } else if (n.kind == "OBJECTIVE") e = std::make_shared<ObjectiveExpression>(name);
      else if (n.kind == "MIN") e = std::make_shared<MinExpression>(name);
      else if (n.kind == "MAX") e = std::make_shared<MaxExpression>(name);
      else if (n.kind == "LESSTHAN") e = std::make_shared<LessThanExpression>(name);
      else if (n.kind == "SCALE") {
        double f = std::stod(a[pos++]);
        bool disregard = a[pos++] == "1";
        e = std::make_shared<ScaleExpression>(name, f, disregard);
      } else {
        throw std::runtime_error("unknown node kind " + n.kind);
      }
      exprs[idx] = e;
    }
    for (auto& [p, c] : edges) exprs.at(p)->addChild(exprs.at(c));

    Partitions available;
    for (auto id : partitionOrder) available.addPartition(partitions.at(id));
    auto capacityMap = std::make_shared<CapacityConstraintMap>(gran);
    auto model = GurobiSolver::newModel();
    auto optConfig = std::make_shared<OptimizationPassConfig>();
    OptimizationPassRunner runner(optConfig, false);
    for (auto& p : passes) {
      if (p == "critical_path") runner.addOptimizationPass(OptimizationPassCategory::CRITICAL_PATH_PASS);
      else if (p == "capacity_purge") runner.addOptimizationPass(OptimizationPassCategory::CAPACITY_CONSTRAINT_PURGE_PASS);
      else if (p == "dynamic_discretization") runner.addOptimizationPass(OptimizationPassCategory::DYNAMIC_DISCRETIZATION_PASS);
    }
    auto rootExpr = exprs.at(root);
    runner.runPreTranslationPasses(now, rootExpr, capacityMap);
    // Time is unsigned: a pass that subtracts a duration from a smaller bound wraps around.  A WindowedChoose would
    // then enumerate start slots up to ~2^32 (minutes of lowering, or slots at "negative" times): report it instead.
    for (auto& [idx, n] : nodes) {
      if (n.kind != "WINDOWED") continue;
      auto b = exprs.at(idx)->getTimeBounds();
      const Time lim = 0x7fffffffu;
      if (b.startTimeRange.first > lim || b.startTimeRange.second > lim || b.endTimeRange.first > lim || b.endTimeRange.second > lim) {
        std::cout << "{\"error\":\"time bounds wrapped below zero after the passes: node " << idx << " " << GurobiSolver::esc(b.toString()) << "\"}" << std::endl;
        return true;
      }
    }
    rootExpr->parse(model, available, capacityMap, now);
    runner.runPostTranslationPasses(now, rootExpr, capacityMap);

    std::ostringstream out;
    out << "{";
    GurobiSolver::dumpModel(model, out);
    if (haveValues) {
      std::string err;
      if (!GurobiSolver::setValues(model, values, err)) {
        out << ",\"result_error\":\"" << GurobiSolver::esc(err) << "\"";
      } else {
        auto sol = rootExpr->populateResults(model);
        out << ",\"result\":{\"objective_value\":" << GurobiSolver::num(GurobiSolver::objectiveValue(model));
        out << ",\"utility\":" << (sol->utility.has_value() ? GurobiSolver::num(sol->utility.value()) : "null");
        out << ",\"placements\":[";
        bool first = true;
        for (auto& [task, pl] : sol->placements) {
          if (!first) out << ",";
          first = false;
          out << "{\"name\":\"" << GurobiSolver::esc(task) << "\",\"placed\":" << (pl->isPlaced() ? "true" : "false");
          out << ",\"start\":" << (pl->getStartTime().has_value() ? std::to_string(pl->getStartTime().value()) : "null");
          out << ",\"end\":" << (pl->getEndTime().has_value() ? std::to_string(pl->getEndTime().value()) : "null") << ",\"alloc\":[";
          bool f2 = true;
          for (auto& [pid, allocs] : pl->getPartitionAllocations()) {
            for (auto& [t, q] : allocs) {
              if (!f2) out << ",";
              f2 = false;
              out << "[" << pid << "," << t << "," << q << "]";
            }
          }
          out << "]}";
        }
        out << "],\"satisfied\":[";
        first = true;
        for (auto& s : sol->satsifiedExpressionNames) {
          if (!first) out << ",";
          first = false;
          out << "\"" << GurobiSolver::esc(s) << "\"";
        }
        out << "],\"nodes\":{";
        first = true;
        for (auto& [idx, e] : exprs) {
          auto s = e->getSolution();
          if (!first) out << ",";
          first = false;
          out << "\"" << idx << "\":";
          if (!s.has_value()) { out << "null"; continue; }
          auto sv = s.value();
          out << "{\"type\":" << static_cast<int>(sv->type) << ",\"utility\":" << (sv->utility.has_value() ? GurobiSolver::num(sv->utility.value()) : "null")
              << ",\"start\":" << (sv->startTime.has_value() ? std::to_string(sv->startTime.value()) : "null")
              << ",\"end\":" << (sv->endTime.has_value() ? std::to_string(sv->endTime.value()) : "null") << "}";
        }
        out << "}}";
      }
    }
    // structure after the passes (children may have been pruned)
    out << ",\"tree\":{";
    bool first = true;
    for (auto& [idx, e] : exprs) {
      if (!first) out << ",";
      first = false;
      out << "\"" << idx << "\":{\"children\":" << e->getNumChildren() << ",\"parsed\":";
      auto pr = e->getParsedResult();
      out << (pr.has_value() ? std::to_string(static_cast<int>(pr.value()->type)) : "0") << "}";
    }
    out << "}}";
    std::cout << out.str() << std::endl;
  } catch (const std::exception& e) {
    std::cout << "{\"error\":\"" << tetrisched::GurobiSolver::esc(e.what()) << "\"}" << std::endl;
  }
  return true;
}
