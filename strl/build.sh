#!/bin/sh
# Builds the STRL driver from the repository's C++ sources (working tree at $VERIF_REPO, default /repo).
# The binary is cached under /verif/.build keyed by a hash of all inputs.
set -e
HERE="$(cd "$(dirname "$0")" && pwd)"
REPO="${VERIF_REPO:-/repo}"
SRC="$REPO/schedulers/tetrisched"
OUT="$HERE/../.build"
mkdir -p "$OUT"
FILES="$SRC/src/Types.cpp $SRC/src/Partition.cpp $SRC/src/SolverModel.cpp $SRC/src/CapacityConstraint.cpp $SRC/src/Expression.cpp $SRC/src/OptimizationPasses.cpp"
HASH=$(cat $FILES $SRC/include/tetrisched/*.hpp "$HERE/driver.cpp" "$HERE"/shim/tbb/*.h | sha1sum | cut -c1-16)
BIN="$OUT/strl_driver_$HASH"
# serialise concurrent builders (16 worker processes may ask at once)
exec 9>"$OUT/.lock"
flock 9
if [ ! -x "$BIN" ]; then
  TMP="$OUT/tmp_$$"
  mkdir -p "$TMP"
  i=0
  for f in $FILES "$HERE/driver.cpp"; do
    i=$((i+1))
    g++ -std=c++20 -O1 -w -I"$HERE/shim" -I"$SRC/include" -c "$f" -o "$TMP/o$i.o" &
  done
  wait
  g++ -o "$BIN.tmp" "$TMP"/o*.o -lpthread
  mv "$BIN.tmp" "$BIN"
  rm -rf "$TMP"
  # keep only the newest few binaries
  ls -t "$OUT"/strl_driver_* 2>/dev/null | tail -n +4 | xargs -r rm -f
fi
echo "$BIN"
