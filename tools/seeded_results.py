#!/venv/bin/python
"""Regenerate seeded/RESULTS.md from seeded/<id>/meta.json (first_result / strengthening are kept in the metas)."""
import glob
import json
import os

HERE = os.path.dirname(os.path.dirname(os.path.abspath(__file__)))
FIRST = {
    "S01-stale-empty-batch-entry": ("missed by C01 (caught by C04 worker_machine)", "C01 gained scripted_sim: a generated plan-ahead policy that places members of one BatchStrategy at different times"),
    "S02-cancelled-parent-counts-as-finished": ("missed", "C02 gained scripted_sim: generated plans place the join of a conditional before the taken branch finishes (class join_waits_with_cancelled_parent)"),
    "S09-seed-only-in-write-mode": ("missed", "C09 generator now draws --log_file_mode (write/append)"),
    "S12-edf-stops-deadline-check-after-first-feasible": ("missed", "C12 generator gained the `flat` shape (2-5 independent released tasks with heterogeneous fastest runtimes): feasible-then-hopeless deadline order went from 0 to 1.4% of cases"),
    "S13-lsf-slack-uses-static-runtime": ("missed", "C13 now also draws preemptive EDF/LSF: running tasks with elapsed time compete again, so remaining time differs from the static runtime"),
    "S19-closed-loop-followups-lose-flags": ("missed", "C19 workload_roundtrip now drives closed loops through Workload.notify_task_graph_completion and judges the follow-up invocations like the initial ones"),
    "S02b-zero-remaining-parents-skip-readiness": ("missed", "scripted worlds of C02/C03 now contain zero-runtime strategies (a parent with zero remaining time that has not completed)"),
    "S05b-zero-deferral-for-zero-remaining-parent": ("missed (no detector for an event that is re-queued at its own timestamp forever)", "new livelock detector: 400 events handled at one clock value with no task or ledger change; C05 gained scripted_termination with zero-runtime tasks"),
    "S08b-scheduler-start-count-ignores-retraction": ("missed", "C08 gained scripted_trace (retracting plan-ahead policy whose attributes match the offers it asks for)"),
    "S16f-stale-latest-time": ("missed (re-timing beyond every inserted time, followed by an insertion below it on a small queue, was too rare)", "C16 event_queue: half of the operation lists are small queues in one unit with early insertions and late re-timings; quick budget 3000 -> 8000"),
    "S17f-refused-add-child-registers": ("missed (no refused operation in the histories)", "C17 graph_history gained refused_edge: add_child on an absent parent must raise ValueError and every clause is asked again on the same object"),
    "S15f-copy-pending-as-available": ("missed (models always loaded in zero time, so no invocation saw a pending model)", "C15 models have a drawn load time (0/2/5/9 us); class invocation_while_a_model_is_loading"),
    "S09f-policy-rng-rewound-unseeded": ("missed (every release policy object was asked once)", "C09 two_fresh_processes draws --replication_factor 1..3 (replicas share the policy object); release_policies_two_processes asks each policy 1-3 times"),
    "S13f-rollback-keeps-records": ("missed by C13 (caught by C04 resources_machine: a refused joint allocation leaves records behind; the greedy policies only inherit it through copy(worker_pools))", None),
    "S12g-batchtask-deadline-max": ("missed (batching mode was switched off in every C12 case)", "C12 gained cplex_planner_batching: TetriSched-CPLEX with --scheduler_enable_batching, members of one batch with different deadlines, half of the cases in the contended-batch shape"),
    "S14g-ilp-drops-retract-flag": ("missed (no instance held an earlier plan; retract_schedules never set)", "C14 gained ilp_goodput_retraction (and a quarter of ilp_goodput): ILP with retract_schedules and SCHEDULED tasks that are offered again; the brute force ranges over them as over any offered task"),
    "S01g-resource-eq-ignores-name-for-specific-ids": ("missed by C01 (caught by C04 pools_machine: ids that coincide across types only exist through the API, where C04 builds them)", None),
    "S04h-evict-pending-zero-runtime-profile": ("missed (the worker model did not tell pending from available profiles; every loading strategy took 3 us)", "C04 worker_machine models the pending and the available profile sets after every operation; loading strategies take 0 or 3 us"),
    "S18h-scheduled-terminal-join-not-released": ("missed (deep states too rare; the harness's `run`-like path required SCHEDULED where the simulator has RELEASED)", "C18 graph_states gained the operations run (release what is due, place and start a runnable task), finish_next and plan_join (a join placed ahead of its parents)"),
    "S07h-only-last-untaken-branch-reported": ("missed by C07 (caught by C06 cancel_row_count: the tasks are cancelled, only the report of it is lost, which is C06's clause; same change as S06g)", None),
    "S01i-deallocate-credits-every-matching-instance": ("missed (no capacity vector had an 'any'-id instance next to another instance of its type, as the repository's own tests configure workers)", "C01 greedy worlds configure a quarter of the clusters with an 'any'-id first instance per type (the placement-row clause now accepts an id owned by several workers); C04 gained any_capacity_ledger: aggregate ledger of such vectors under allocate / allocate_multiple / deallocate / copy"),
    "S06i-sink-tasks-cached": ("missed by every check (only reachable through the API: a TaskGraph that grows after its sinks were asked for)", "C17 task_job_graphs builds a second TaskGraph task by task (TaskGraph.add_task) and asks for sources, sinks, is_complete after every addition; C06 has no simulator-reachable trigger for it"),
    "S08i-csv-reader-tables-shared-across-files": ("missed (every trace was read by its own CSVReader)", "C08: half of the traces are read by one CSVReader after a companion trace (the run's own trace with renamed graphs), as analyze.py passes several paths; the reconstruction must not depend on what was read before"),
    "S11i-stale-remaining-time-after-unschedule": ("missed (no state held a withdrawn plan, and the oracle asked the task itself for the worst-case runtime of a strategy-less decision)", "scheduler-input states for C11 contain tasks whose earlier plan was withdrawn (schedule + unschedule); the runtime charged to a strategy-less (Z3) decision is computed from the strategies, not read from Task.remaining_time"),
    "S14i-tetrisched-running-parent-full-runtime": ("missed (running tasks were never parents of offered tasks, and every miss in a partially-executed case was attributed to finding F12)", "C14 partially_executed_running: chains whose first task is already running; a miss is attributed to F12 only if the task cannot be added when running tasks reserve their full runtime from now, otherwise it is a new signature"),
    "S03i-remove-event-sifts-one-way": ("missed by C03 (caught by C16 event_queue: the queue pops out of order after a removal, and by C05: every run in which it shows raises 'cannot step backwards')", None),
    "S17b-stale-topological-order-cache": ("missed", "C17 gained graph_history: all clauses re-asked after every add_node/add_child/remove on one Graph object"),
    "S01b-reload-profile-skips-booking": ("missed", None),
    "S11e-ilp-skips-precedence-for-scheduled-children": ("missed (state never built)", "scheduler-input states for C11 may contain children that an earlier invocation planned ahead (SCHEDULED after a RUNNING/SCHEDULED parent)"),
    "S18e-release-loop-breaks-at-cancelled-child": ("missed at the quick budget (caught at 4x)", "C18 graph_states: a third of the graphs are forks, a dedicated operation drops the first child of a running fork, budget 1200 -> 3000; caught at 4 of 4 seeds afterwards"),
    "S14e-plan-ahead-horizon-cached-on-the-scheduler": ("missed (every case used a fresh policy object)", "C14: a third of the TetriSched cases reuse a policy object that has already served an earlier invocation with a short deadline (history independence of the planners)"),
    "S10e-infeasible-path-answers-for-running-tasks": ("missed (the planners' infeasible-model path was never taken)", "C10 gained commitment_calls: non-retracting planners under enforced tight deadlines, half of them in the one-slot shape (running task, promised successor without slack, newcomer)"),
    "S01e-rollback-deletes-the-wrong-slice": ("missed by C01 (caught by C04 resources_machine; only reachable through Worker/Resources call sequences)", None),
    "S06e-not-ready-deferral-not-cached": ("missed by C06 (the run crashes: caught by C05 simulate_raises)", None),
    "S04d-pool-ledger-update-overwrites-shared-keys": ("missed (getter never read, ids never shared)", "C04 pools_machine reads the pool-level ledger (WorkerPool.resources, get_utilization) after every operation and builds a third of its clusters with machine-local resource ids"),
    "S13d-fit-test-refuses-zero-request-of-exhausted-type": ("missed", "C13 profiles may contain a zero-quantity entry (as C01's do)"),
    "S19d-gamma-coefficient-override-becomes-fallback": ("missed (oracle gap: release-policy parameters were not compared)", "C19 compares rate, coefficient, concurrency, num_invocations and period of every loaded policy with the description and the override flags"),
    "S15d-run-load-on-private-copy": ("missed (oracle gap: 'model loaded' was judged on the state before the call)", "C15 applies the evictions of a decision before judging its batches, as the simulator's event order does"),
    "S02d-released-tasks-skip-the-parent-check": ("missed (shape never generated)", "C02 graphs may give the branch heads of a conditional an extra ordinary parent outside the region"),
    "S07d-placement-with-a-cancelled-parent-is-consumed": ("missed (clause switched off for the non-work-conserving generated policy)", "new C07 clause join_cancelled: the join of a conditional that ran must not be CANCELLED in worlds without a cancellation source"),
    "S03d-fuzz-delta-in-us-added-to-coarser-unit": ("missed", "C03 worlds contain strategies with whole-millisecond runtimes written in milliseconds"),
    "S11d-running-parent-anchored-at-its-start-time": ("missed", "scheduler-input states may contain RUNNING tasks that overrun their strategy (as runtime variance makes them), capped so that what is left never exceeds the strategy's runtime"),
    "S10d-clockwork-run-load-on-live-pools": ("missed (flag never set)", "a quarter of the Clockwork histories (C15, C10 clockwork_history) run with scheduler_run_load and little RAM; the side-effect clause compares free GPU, free RAM, loaded and pending profiles of every live worker"),
    "S06d-cancel-events-name-the-placed-task": ("missed by C06 at the quick budget (caught by C08 scripted_trace)", "C06 scripted_sim quick budget raised from 500 to 1500 cases"),
    "S12d-ilp-no-deadline-constraint-for-committed-tasks": ("missed (oracle gap: SCHEDULED tasks were not judged)", "C12 judges re-decided SCHEDULED tasks whose earlier plan met the deadline, on returned plans and on enumerated feasible points"),
    "S14d-tetrisched-skips-solve-if-any-task-scheduled": ("missed by C14 (caught by C10 offered_task_not_answered)", None),
    "S01d-resources-copy-shares-allocation-lists": ("missed by C01 (caught by C04 resources_machine; no bundled policy books a placed task again on a copy)", None),
    "S16c-eq-through-hash": ("missed (one magic pair)", "C16 values are biased to the neighbours of 0 and of the invalid marker (-4..4 us)"),
    "S09c-fixed-gamma-policy-unseeded": ("missed (policy kind not reachable through main.py)", "C09 gained release_policies_two_processes: poisson/gamma/fixed_gamma policies built through the API without rng_seed in two fresh processes after random.seed(N)"),
    "S17c-critical-path-weights-ignore-units": ("missed", "C17 task graphs write whole-millisecond runtimes in milliseconds"),
    "S15c-remove-task-stops-at-first-missing-queue": ("missed", "C15 models list their strategies in a drawn order (was always ascending by runtime)"),
    "S01c-zero-quantity-entry-breaks-loop": ("missed by C01 (caught by C04 resources_machine)", "C01 worlds now contain demand vectors with a zero-quantity entry ahead of the real ones"),
    "S02c-release-event-uses-finished-tasks-release-time": ("missed (oracle gap: the judge compared the start with the release *event*, which the change itself moves)", "C02 also requires start >= Task.intended_release_time (graph release, closed-loop follow-up = completion + 1)"),
    "S04c-rollback-releases-prior-holdings": ("missed (shape too rare)", "C04 resources_machine draws requests that name one type by 'any' and by instance id (rollback path), also for computations that already hold resources"),
    "S07c-submission-resolution-walks-past-join": ("missed (generator and oracle gap: two conditional regions in sequence were rare, and the judge trusted the instantiation-time probabilities)", "two-region graphs are forced in 1/4 of the heavy cases; new clause: a completed conditional whose described children have a chance must not be instantiated with every child at probability 0"),
    "S10c-clockwork-admission-boundary-le": ("missed by C10 (caught by C12 and C15)", "C10 gained clockwork_history: C15's multi-invocation histories judged for one-decision-per-request, side effects and exceptions"),
    "S13b-edf-sorts-by-raw-deadline-number": ("missed", "C13 now writes some deadlines in milliseconds (class mixed_time_units): priorities are instants, not numerals"),
    "S03j-min-remaining-raw-ticks": ("missed (millisecond runtimes were only drawn in the greedy worlds, where every placement is followed by a zero-length step that normalises the units)",
                                     "C03 gained scripted_ms_sim: plan-ahead placements of strategies with runtimes written in milliseconds next to running microsecond tasks"),
    "S13j-lsf-virtual-placement-drops-strategy": ("missed (every pool had one worker, as the property's observation point prescribes)",
                                                  "C13 gained greedy_multiworker: pools of 1-3 workers; a greedy Placement names the pool only, so the oracle quantifies over every way of putting the higher-or-equal "
                                                  "priority placements on the pool's workers (exhaustive assignment search) and reports an inversion only if the unplaced task fits in all of them"),
}
NOTES = {
    "S01b-reload-profile-skips-booking": "NOT CAUGHT, by decision: the change only manifests when a profile that is already resident on a worker is loaded again with a larger "
    "loading strategy. No bundled policy ever issues such a LOAD (Clockwork loads each model once), the property does not say what a resident profile's footprint is after "
    "a reload (the original code books both strategies, the changed code the first only; conservation and restoration hold in both), so neither C01 nor C04 has an oracle for it.",
}

rows = []
for d in sorted(glob.glob(os.path.join(HERE, "seeded", "S*/"))):
    mp = os.path.join(d, "meta.json")
    m = json.load(open(mp))
    f = FIRST.get(m["seed_id"])
    m["first_result"] = f[0] if f else "caught"
    m["strengthening"] = f[1] if f else None
    if m["seed_id"] in NOTES:
        m["note"] = NOTES[m["seed_id"]]
    json.dump(m, open(mp, "w"), indent=1)
    sigs = sorted({s for r in m["quick_checks"].values() for s in r["signatures"]})
    rows.append((m["seed_id"], m["breaks_property"], m["needs"], m["first_result"], ", ".join(m["caught_by"]) or "-", "; ".join(sigs[:3]), (f[1] if f and f[1] else "") or NOTES.get(m["seed_id"], "")))
out = [
    "# Independently written breaking changes (seeded)", "",
    "Each change was written by a fresh sub-agent that saw only the property text and its own scratch worktree of the repository (nothing from /verif); the second",
    "round of agents (ids ending in `b`) was also told which ideas had been tried, to force different code sites. For every change `tools/seeded_check.py` confirmed in",
    "the worktree: the repository test suite passes with the change, the agent's demonstration fails with it and passes without it; then the quick check(s) were run with",
    "VERIF_REPO pointing at the changed tree. `patch.diff`, the demonstration and `meta.json` are kept per seed; to replay:",
    "`git -C /repo apply seeded/<id>/patch.diff; python run_check.py --property <P> --tier quick; git -C /repo checkout -- .`", "",
    "| seed | property | needs | first result | now caught by | signatures | strengthening / note |", "|---|---|---|---|---|---|---|",
]
for r in rows:
    out.append("| " + " | ".join(x.replace("|", "/") for x in r) + " |")
caught_first = sum(1 for r in rows if r[3] == "caught")
still = sum(1 for r in rows if r[4] == "-")
neighbour = sum(1 for r in rows if r[3].startswith("missed by") and "(caught by" in r[3])
out += ["", f"{len(rows)} changes; {caught_first} caught at once by the check of the property they target, {neighbour} missed by that check but caught at once by the check of a "
        f"neighbouring property (most of those target checks were strengthened too), {len(rows) - caught_first - still - neighbour} missed by every check at first and caught after the "
        f"strengthening listed (each re-verified), {still} not caught (explained in its row).",
        "C20 (C++ back-end) has no sub-agent seed: the agents cannot rebuild the extension; its sensitivity is covered by mutants/strl.json."]
open(os.path.join(HERE, "seeded", "RESULTS.md"), "w").write("\n".join(out) + "\n")
print("\n".join(out[-3:]))
