#!/venv/bin/python
"""Verify an independently written breaking change and run the quick check(s) against it.

usage: tools/seeded_check.py <worktree> <seed-id> <property> [--checks C03,C05] [--needs "..."]
The worktree has the change applied and contains patch.diff and demo_<property>.py.
Writes seeded/<seed-id>/{patch.diff, demo_*.py, meta.json}.
"""
import argparse
import json
import os
import shutil
import subprocess
import sys

HERE = os.path.dirname(os.path.dirname(os.path.abspath(__file__)))


def sh(cmd, cwd, env=None, timeout=3600):
    p = subprocess.run(cmd, cwd=cwd, shell=True, capture_output=True, text=True, env=env, timeout=timeout)
    return p.returncode, (p.stdout + p.stderr)


def main():
    ap = argparse.ArgumentParser()
    ap.add_argument("worktree")
    ap.add_argument("seed_id")
    ap.add_argument("property")
    ap.add_argument("--checks")
    ap.add_argument("--needs", default="")
    ap.add_argument("--scale", default="1")
    a = ap.parse_args()
    wt = a.worktree
    demo = [f for f in os.listdir(wt) if f.startswith("demo_") and f.endswith(".py")][0]
    meta = {"seed_id": a.seed_id, "breaks_property": a.property, "needs": a.needs, "ran": []}
    # 1. the change is applied: tests pass, demo fails
    rc, out = sh("/venv/bin/python -m pytest -q -p no:cacheprovider --timeout=900", wt)
    meta["tests_pass_with_change"] = rc == 0
    meta["ran"].append(f"pytest with change: rc={rc} {out.strip().splitlines()[-1] if out.strip() else ''}")
    rc, out = sh(f"/venv/bin/python {demo}", wt, timeout=600)
    meta["demo_fails_with_change"] = rc != 0
    meta["ran"].append(f"demo with change: rc={rc} {out.strip().splitlines()[-1][:200] if out.strip() else ''}")
    # 2. without the change the demo passes
    rc0, _ = sh("git apply -R patch.diff", wt)
    rc, out = sh(f"/venv/bin/python {demo}", wt, timeout=600)
    meta["demo_passes_without_change"] = rc0 == 0 and rc == 0
    meta["ran"].append(f"demo without change: rc={rc} {out.strip().splitlines()[-1][:200] if out.strip() else ''}")
    sh("git apply patch.diff", wt)
    # 3. our quick checks against the changed tree
    env = dict(os.environ, VERIF_REPO=wt, VERIF_SCALE=a.scale, VERIF_MUTANT="1")
    results = {}
    for prop in (a.checks.split(",") if a.checks else [a.property]):
        rc, out = sh(f"/venv/bin/python run_check.py --property {prop} --tier quick", HERE, env=env)
        sigs = sorted({l.split("signature=")[1].strip() for l in out.splitlines() if "signature=" in l})
        results[prop] = {"exit": rc, "signatures": sigs}
        meta["ran"].append(f"run_check --property {prop} --tier quick (VERIF_REPO={wt}): rc={rc}")
    meta["quick_checks"] = results
    meta["caught_by"] = [p for p, r in results.items() if r["exit"] == 1]
    d = os.path.join(HERE, "seeded", a.seed_id)
    os.makedirs(d, exist_ok=True)
    shutil.copy(os.path.join(wt, "patch.diff"), os.path.join(d, "patch.diff"))
    shutil.copy(os.path.join(wt, demo), os.path.join(d, demo))
    json.dump(meta, open(os.path.join(d, "meta.json"), "w"), indent=1)
    print(json.dumps(meta, indent=1))


if __name__ == "__main__":
    main()
