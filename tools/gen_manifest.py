#!/venv/bin/python
"""Regenerates /verif/MANIFEST.json from the table below (single source of truth)."""
import json
import os

HERE = os.path.dirname(os.path.dirname(os.path.abspath(__file__)))
ALL = [f"C{i:02d}" for i in range(1, 21)]

# property -> (technique, level text, level note, design ref)
CLAIMED = {
    "C01": (
        "Hypothesis-generated worlds (bundled greedy and MILP policies, plus a script-driven plan-ahead policy whose every placement is a generated value) simulated end-to-end with a shadow resource ledger fed by class-level wrappers on Worker.place_task/remove_task/load_profile/evict_profile",
        "Every ledger operation on a live worker in thousands of generated runs is replayed on an independent shadow ledger (demand taken from the execution strategy, a batch counted once) and compared with the configured capacity; TASK_PLACEMENT and WORKER_POOL_UTILIZATION rows are cross-checked. Exploration of the run space, not proof.",
        "Scheduler runtime 0, no preemption; solver-backed policies are bounded by the size-limited Gurobi/CPLEX licences.",
        "DESIGN.md 3 C01",
    ),
    "C02": (
        "Hypothesis-generated DAG worlds simulated end-to-end under bundled policies and under generated plans (script-driven plan-ahead policy placing unreleased tasks, retracting and re-planning); every Task.start judged against the monitor's own release/finish history and the CSV trace",
        "Validity predicate over every start of every task of every generated run: release first, all (terminal: one) predecessors finished first, at most one start/finish. Exploration.",
        "Predecessor sets come from the generated spec. Scheduler runtime 0, no preemption.",
        "DESIGN.md 3 C02",
    ),
    "C03": (
        "Hypothesis-generated worlds with simultaneous events (bundled policies and generated plans, incl. plan-ahead placements of millisecond-unit strategies next to microsecond ones); per-task duration, release of resources, clock monotonicity and justification of every deferral against shadow models",
        "Every task's finish-start is compared with the runtime of the strategy handed to Worker.place_task (exact, or within the variance window), resources must be released at that instant, handled event times must be non-decreasing, and each TASK_NOT_READY/WORKER_NOT_READY must be justified by the shadow history/ledger. Exploration.",
        "Tie order among equal-priority events is not asserted. Scheduler runtime 0, no preemption.",
        "DESIGN.md 3 C03",
    ),
    "C04": (
        "model-based operation histories (Hypothesis op-lists) on Resources, Worker and WorkerPools against a reference ledger, plus the end-to-end ledger clause on simulated worlds",
        "After every generated operation the public getters of the real objects (and of every copy made so far) are compared with a reference ledger; refusals must leave every getter unchanged; removing everything must restore capacity. Stateful exploration of short histories.",
        "Which instance serves an 'any' request is read back and validated by conservation; tasks are never placed twice.",
        "DESIGN.md 3 C04",
    ),
    "C05": (
        "Hypothesis-generated worlds (bundled policies; generated plans for the termination clause only); deterministic livelock detection in the harness (no wall-clock oracle) plus end-state predicates for feasible work under work-conserving policies",
        "simulate() must return with a SIMULATOR_END no later than the timeout; non-termination is proven from the deterministic loop (repeated zero-length steps or scheduler invocations with no state change), never guessed from time. Feasible work under EDF/FIFO/LSF must be complete and no runnable released task may remain when the run ends early. Exploration; liveness only up to the step budget.",
        "Runs that hit the 4000-step budget without a proven loop are inconclusive (counted). Scheduler runtime 0.",
        "DESIGN.md 3 C05",
    ),
    "C06": (
        "Hypothesis-generated cancel-heavy worlds (bundled policies and generated plans with retraction) plus a model-based operation list on a single Task (release/schedule/unschedule/start/run/cancel against a reference automaton of the documented guards); the final cancelled set is checked for downstream closure",
        "Reference automaton over all observed Task.release/schedule/unschedule/start/finish/cancel calls plus an end-of-run closure predicate (a descendant that can no longer receive its inputs is CANCELLED, never started, has one TASK_CANCEL row; TASK_GRAPH_FINISHED iff all sinks completed). Exploration.",
        "Graph structure comes from the generated spec; scheduler runtime 0; no preemption.",
        "DESIGN.md 3 C06",
    ),
    "C07": (
        "Hypothesis-generated worlds dominated by (nested) conditional regions; per completed conditional the taken/untaken branches are judged from final states and start histories",
        "For every completed conditional of every generated run: exactly one child alive with positive (instantiation-time) probability, every task strictly inside the untaken branches cancelled and never started, join and successors ran exactly once; resolution at submission respected. Exploration.",
        "Only well-formed conditional/terminal regions are generated; feasible clusters, work-conserving greedy policies, no timeout.",
        "DESIGN.md 3 C07",
    ),
    "C08": (
        "Hypothesis-generated worlds (bundled greedy policies and a generated retracting plan-ahead policy); differential check of every CSV row and of the end-of-run summary against ground truth from Task objects, monitors and shadow ledger, then round-trip through data.CSVReader",
        "Each trace row is recomputed from independent observations and the whole trace is parsed by the project's reader whose reconstruction is compared field by field (differential / round-trip oracle). Exploration.",
        "Crashing/livelocking runs are judged by C05. Scheduler runtime 0; no preemption.",
        "DESIGN.md 3 C08",
    ),
    "C09": (
        "Hypothesis-generated workload/cluster files run by two fresh main.py processes with different PYTHONHASHSEED and directories (incl. --replication_factor, --log_file_mode); differential comparison of the CSV traces; sampling release policies built through the API and asked 1-3 times in two fresh processes",
        "Differential oracle over real process pairs: identical traces up to the masked wall-clock fields for every generated workload using randomness. Exploration.",
        "Deterministic policies with scheduler runtime 0; same interpreter and machine for both runs.",
        "DESIGN.md 3 C09",
    ),
    "C10": (
        "Hypothesis-generated reachable scheduler inputs (statebuilder) for all eight policies plus every invocation inside generated end-to-end runs; validity predicates, independent interval-sweep capacity oracle with exact worker-assignment search, before/after snapshot comparison",
        "Each invocation's answer is judged by validity predicates (one decision per task, only offered/previously scheduled and unstarted tasks, completeness, existing pool/worker, own strategy, time >= now/release), an independent capacity sweep over running + scheduled + new placements, and a full snapshot comparison of the live cluster and all tasks. Exploration.",
        "Solver licence-limit errors are discarded; Z3 reports no strategy so its capacity clause is skipped; pre-states that are not jointly feasible are discarded as unreachable.",
        "DESIGN.md 3 C10",
    ),
    "C11": (
        "Hypothesis-generated partially executed DAG states offered wholly or partly to ILP / TetriSched-Gurobi / Z3; precedence predicates on the returned plan and on up to 200 feasible points of the captured Gurobi models (solution-pool enumeration)",
        "Validity predicate (child placed => co-decided parents placed and child.start >= parent.start + chosen runtime; >= expected finish of running/scheduled parents) on returned plans and on sampled feasible points decoded through the scheduler's own variables. Exploration; the feasible set is sampled.",
        "No conditional regions; licence-limited model sizes; weakest reading of 'chosen or worst-case' runtime.",
        "DESIGN.md 3 C11",
    ),
    "C12": (
        "Hypothesis-generated boundary-deadline scheduler inputs for every enforcing policy (incl. TetriSched-CPLEX batching mode with per-member deadlines); returned plans plus up to 200 feasible points of the captured Gurobi models (solution-pool enumeration decoded through the scheduler's own variables); generated end-to-end planner runs",
        "Admission predicate (hopeless => cancel / unplaced, never placed; feasible => not cancelled), start+runtime <= deadline on the returned plan and on enumerated feasible points of the ILP / TetriSched-Gurobi models, completion <= deadline in planner runs with exact runtimes. Exploration; the feasible set is sampled, not exhausted.",
        "Licence-limited model sizes; ILP in task-by-task mode; integer start variables are capped for enumeration (sampling restriction only).",
        "DESIGN.md 3 C12",
    ),
    "C13": (
        "Hypothesis-generated scheduler inputs (reachable states on single-worker pools and, in greedy_multiworker, pools of 1-3 workers; non-preemptive and preemptive EDF/LSF, deadlines in mixed time units) with an independent tie-tolerant fit check per unplaced task; for multi-worker pools the oracle enumerates every assignment of the higher-or-equal priority placements to workers",
        "For every generated invocation of EDF/FIFO/LSF: each unplaced task must not fit any pool once higher-or-equal priority placements are accounted; placed tasks are jointly feasible. Exploration.",
        "greedy_invocation: single-worker pools. greedy_multiworker: a Placement names the pool only, so an inversion is reported only if the unplaced task fits under every worker assignment (sound, not complete). Priority keys recomputed by the harness (deadline / release / deadline-now-remaining).",
        "DESIGN.md 3 C13",
    ),
    "C14": (
        "Hypothesis-generated small instances; differential against the harness's own DFS enumeration of the planner's documented decision space (ILP: brute-force maximum of rewarded graphs, also over retractable earlier plans with retract_schedules; TetriSched: maximality of the returned plan)",
        "Reference brute-force optimum / maximality predicate over the complete decision space of each generated instance inside the enumeration bound (<= 4 offered tasks, <= 2 workers, <= 2 strategies, horizon <= 12 slots). Exploration over instances, exhaustive within each instance.",
        "Time models taken from the planners' documentation/verify_schedule conventions (ILP closed intervals and +1 precedence, TetriSched half-open windows on the slot grid); licence-limited sizes; brute-force truncation discards the case.",
        "DESIGN.md 3 C14",
    ),
    "C15": (
        "model-based operation histories (Hypothesis op-lists: submit / advance / load with drawn load times / evict / schedule+apply) against the real ClockworkScheduler, judged by a shadow ledger and a request history",
        "Stateful exploration: every batch returned in every invocation of generated histories is checked for one model, full size, loaded model, capacity per shadow ledger, on-time completion, at-most-once placement and cancel-iff-hopeless. Exploration of short histories.",
        "Start-up loading performed by the harness through scheduler.start(); a quarter of the histories run with scheduler_run_load.",
        "DESIGN.md 3 C15",
    ),
    "C16": (
        "Hypothesis-generated EventTime triples against integer-microsecond arithmetic; generated "
        "EventQueue operation histories against a reference multiset (model-based)",
        "Generated-input search with an explicit reference model: every comparison/hash/arithmetic/conversion "
        "law is compared with Python integers of microseconds, and every pop/peek/next-of-type of the real "
        "EventQueue with the minimum of a reference multiset under the documented order. Exploration, not proof.",
        "Trusts Python integers and the documented ordering key (time, type priority, task name). Events of "
        "task-carrying types always carry tasks, re-timing is followed by reheapify (as in simulator.py).",
        "DESIGN.md 3 C16",
    ),
    "C17": (
        "exhaustive enumeration of all labelled DAGs (<=5 nodes quick, 6 nodes thorough) plus Hypothesis random "
        "DAGs/cyclic digraphs/TaskGraph+JobGraph instances against brute-force path enumeration, and model-based mutation histories (add_node/add_child/remove/refused add_child interleaved with queries) on one Graph object",
        "Every labelled DAG up to the bound is enumerated and each graph algorithm is compared with an "
        "independent reference (transitive closure, brute-force source-sink path enumeration, own DP); "
        "exhaustive within the bound, sampled above it.",
        "Trusts the reference implementations in pbt/oracles/graphs.py; positive integer node weights only.",
        "DESIGN.md 3 C17",
    ),
    "C18": (
        "Hypothesis op-lists that drive TaskGraphs into reachable state mixtures through the public API, queried under all lookahead/retract/release_taskgraphs/branch-policy combinations (validity + metamorphic subset relations), plus every offer recorded in generated EDF/FIFO/LSF runs",
        "Validity predicates (released tasks offered, finished/placed tasks not offered), metamorphic relations (offer monotone in lookahead and in release_taskgraphs), a release-on-completion reference rule, and the no-early-offer predicate on real greedy runs. Exploration.",
        "No preemption; RANDOM branch policy excluded from subset relations.",
        "DESIGN.md 3 C18",
    ),
    "C19": (
        "Hypothesis-generated YAML/JSON descriptions loaded by WorkloadLoader/WorkerLoader and compared field by field (round-trip), with independently recomputed release times, graph copies and deadlines, closed loops driven through notify_task_graph_completion so that follow-up invocations are judged too; closed-loop concurrency on generated runs",
        "Round-trip oracle for descriptions, reference computations for release policies and deadlines, invariant over end-to-end closed-loop runs. Exploration.",
        "Critical path by own brute-force enumeration; graphs whose critical path is ambiguous (zero weights with SLOs) are skipped and counted.",
        "DESIGN.md 3 C19",
    ),
    "C20": (
        "Hypothesis grammar of STRL trees (incl. Max over strategy variants with their own machine count and duration, and congested single-partition shapes) lowered by the repository's C++ code (driver built from /repo sources with a sequential TBB shim); differential against an independent Python semantics of STRL with exhaustive leaf-decision enumeration; solution-pool enumeration of the rebuilt MILP fed back through populateResults(); metamorphic relations over pruning passes and discretisation",
        "Translation validation by generated search: for each generated tree the optimum and up to 30 feasible points of the emitted model are decoded and judged by a reference semantics (capacity at every instant, exact Choose amounts/windows, Min/Max/LessThan structure, utility == objective, read-back placements); optimum == brute-force optimum; optimum invariant under the pruning passes; coarser grids only lose utility. Exploration over trees, exhaustive over leaf decisions per tree.",
        "Model solved with gurobipy after a translation mirroring GurobiSolver.cpp; WindowedChoose windows on their own grid (as the front-end passes them); trees with > 40 000 decision vectors are discarded.",
        "DESIGN.md 3 C20",
    ),
}

NOT_YET = "check not built yet in this snapshot of /verif (construction in progress; see DESIGN.md section 3)"


def main():
    checks = []
    for pid in ALL:
        if pid not in CLAIMED:
            continue
        tech, text, note, ref = CLAIMED[pid]
        checks.append(
            {
                "property_id": pid,
                "quick_cmd": f"/venv/bin/python run_check.py --property {pid} --tier quick",
                "thorough_cmd": f"/venv/bin/python run_check.py --property {pid} --tier thorough",
                "evidence_file": f"evidence/{pid}.json",
                "replay_cmd_template": "/venv/bin/python run_check.py --replay {path}",
                "engine": "pbt",
                "level_claimed": {"category": "exploration", "text": text, "design_ref": ref},
                "level_note": note,
                "technique": tech,
            }
        )
    manifest = {
        "version": 1,
        "setup_cmd": "sh tools/setup.sh",
        "hooks": {
            "guard": "ERDOS_SIM_VERIF",
            "enable": "no source hooks: the harness installs class-level wrappers at run time (DESIGN.md 2.2); the guard is unused",
            "baseline_off_cmd": "cd /repo && /venv/bin/python -m pytest -ra -q -p no:cacheprovider --timeout=900 --continue-on-collection-errors",
            "source_commits": [],
            "add_only": True,
        },
        "engines": [
            {
                "name": "pbt",
                "path": "run_check.py",
                "serves_properties": sorted(CLAIMED),
                "kind_free_text": "Hypothesis strategies / operation-list state machines / exhaustive enumerators with "
                "explicit oracles, 16-way sharded, shrink to JSON replay files",
            }
        ],
        "checks": checks,
        "notes": "All checks run with /venv/bin/python against the working tree at $VERIF_REPO (default /repo). "
        "Exit 0 held / 1 VIOLATION / 2 harness error. Genuine defects repaired in /repo are listed as 'fixed' in "
        "known_findings.json; recorded ones print KNOWN-FINDING lines.",
        "not_applicable": [{"property_id": p, "reason": NOT_YET} for p in ALL if p not in CLAIMED],
    }
    with open(os.path.join(HERE, "MANIFEST.json"), "w") as f:
        json.dump(manifest, f, indent=1)
    print(f"claimed: {sorted(CLAIMED)}")


if __name__ == "__main__":
    main()
