#!/venv/bin/python
"""Regenerates /verif/MANIFEST.json from the table below (single source of truth)."""
import json
import os

HERE = os.path.dirname(os.path.dirname(os.path.abspath(__file__)))
ALL = [f"C{i:02d}" for i in range(1, 21)]

# property -> (technique, level text, level note, design ref)
CLAIMED = {
    "C16": (
        "Hypothesis-generated EventTime triples against integer-microsecond arithmetic; generated "
        "EventQueue operation histories against a reference multiset (model-based)",
        "Generated-input search with an explicit reference model: every comparison/hash/arithmetic/conversion "
        "law is compared with Python integers of microseconds, and every pop/peek/next-of-type of the real "
        "EventQueue with the minimum of a reference multiset under the documented order. Exploration, not proof.",
        "Trusts Python integers and the documented ordering key (time, type priority, task name). Events of "
        "task-carrying types always carry tasks, re-timing is followed by reheapify (as in simulator.py).",
        "DESIGN.md 3 C16",
    ),
    "C17": (
        "exhaustive enumeration of all labelled DAGs (<=5 nodes quick, 6 nodes thorough) plus Hypothesis random "
        "DAGs/cyclic digraphs/TaskGraph+JobGraph instances against brute-force path enumeration",
        "Every labelled DAG up to the bound is enumerated and each graph algorithm is compared with an "
        "independent reference (transitive closure, brute-force source-sink path enumeration, own DP); "
        "exhaustive within the bound, sampled above it.",
        "Trusts the reference implementations in pbt/oracles/graphs.py; positive integer node weights only.",
        "DESIGN.md 3 C17",
    ),
}

NOT_YET = "check not built yet in this snapshot of /verif (construction in progress; see DESIGN.md section 3)"


def main():
    checks = []
    for pid in ALL:
        if pid not in CLAIMED:
            continue
        tech, text, note, ref = CLAIMED[pid]
        checks.append(
            {
                "property_id": pid,
                "quick_cmd": f"/venv/bin/python run_check.py --property {pid} --tier quick",
                "thorough_cmd": f"/venv/bin/python run_check.py --property {pid} --tier thorough",
                "evidence_file": f"evidence/{pid}.json",
                "replay_cmd_template": "/venv/bin/python run_check.py --replay {path}",
                "engine": "pbt",
                "level_claimed": {"category": "exploration", "text": text, "design_ref": ref},
                "level_note": note,
                "technique": tech,
            }
        )
    manifest = {
        "version": 1,
        "setup_cmd": "sh tools/setup.sh",
        "hooks": {
            "guard": "ERDOS_SIM_VERIF",
            "enable": "no source hooks: the harness installs class-level wrappers at run time (DESIGN.md 2.2); the guard is unused",
            "baseline_off_cmd": "cd /repo && /venv/bin/python -m pytest -ra -q -p no:cacheprovider --timeout=900 --continue-on-collection-errors",
            "source_commits": [],
            "add_only": True,
        },
        "engines": [
            {
                "name": "pbt",
                "path": "run_check.py",
                "serves_properties": sorted(CLAIMED),
                "kind_free_text": "Hypothesis strategies / operation-list state machines / exhaustive enumerators with "
                "explicit oracles, 16-way sharded, shrink to JSON replay files",
            }
        ],
        "checks": checks,
        "notes": "All checks run with /venv/bin/python against the working tree at $VERIF_REPO (default /repo). "
        "Exit 0 held / 1 VIOLATION / 2 harness error. Genuine defects repaired in /repo are listed as 'fixed' in "
        "known_findings.json; recorded ones print KNOWN-FINDING lines.",
        "not_applicable": [{"property_id": p, "reason": NOT_YET} for p in ALL if p not in CLAIMED],
    }
    with open(os.path.join(HERE, "MANIFEST.json"), "w") as f:
        json.dump(manifest, f, indent=1)
    print(f"claimed: {sorted(CLAIMED)}")


if __name__ == "__main__":
    main()
