#!/bin/sh
# Runs every registered quick (or thorough) check once; prints one summary line per property.
# usage: tools/run_all.sh [quick|thorough] [seed]
TIER="${1:-quick}"
SEED="${2:-1}"
cd "$(dirname "$0")/.."
rc=0
for p in C01 C02 C03 C04 C05 C06 C07 C08 C09 C10 C11 C12 C13 C14 C15 C16 C17 C18 C19 C20; do
  out=$(VERIF_SEED=$SEED /venv/bin/python run_check.py --property $p --tier $TIER 2>&1)
  code=$?
  echo "$out" | grep -E "^(VIOLATION|HARNESS-ERROR|  check=|  detail=)" | cut -c1-400
  echo "$out" | tail -1
  [ $code -ne 0 ] && rc=1
done
exit $rc
