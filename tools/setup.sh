#!/bin/sh
# Offline setup: make sure hypothesis is importable by /venv (it normally already is).
set -e
cd "$(dirname "$0")/.."
if ! /venv/bin/python -c "import hypothesis" 2>/dev/null; then
  /venv/bin/pip install --no-index --find-links /opt/veriftools/wheels hypothesis
fi
/venv/bin/python -c "import hypothesis, sys; print('hypothesis', hypothesis.__version__, 'python', sys.version.split()[0])"
mkdir -p .work evidence .build
# build the STRL driver (C20) once; checks rebuild it automatically when the C++ sources change
sh strl/build.sh >/dev/null && echo 'strl driver built'
