#!/venv/bin/python
"""Re-run the quick checks against every kept seeded change (regression pass over seeded/).

usage: tools/seeded_recheck.py [--props C04,C18] [--jobs 4] [--out seeded/RECHECK.md]
For every seeded/<id>/ whose meta.json lists `caught_by`, a scratch worktree of /repo is created under /tmp, the patch is
applied (skipped and reported if it no longer applies to the current /repo HEAD, e.g. because a later `fix:` commit rewrote the
same lines), the checks that caught it are run with VERIF_REPO pointing at the worktree (VERIF_MUTANT=1, so nothing is written
to replays/ or evidence/), and the worktree is removed again.
"""
import argparse
import glob
import json
import os
import subprocess
import sys
from concurrent.futures import ThreadPoolExecutor

HERE = os.path.dirname(os.path.dirname(os.path.abspath(__file__)))
REPO = os.environ.get("VERIF_REPO_BASE", "/repo")


def sh(cmd, cwd=None, env=None, timeout=3600):
    p = subprocess.run(cmd, cwd=cwd, shell=True, capture_output=True, text=True, env=env, timeout=timeout)
    return p.returncode, p.stdout + p.stderr


def one(d):
    m = json.load(open(os.path.join(d, "meta.json")))
    sid = m["seed_id"]
    wt = f"/tmp/recheck_{sid.split('-')[0]}_{os.getpid()}"
    sh(f"git -C {REPO} worktree remove --force {wt}")
    rc, out = sh(f"git -C {REPO} worktree add -q --detach {wt} HEAD")
    if rc:
        return sid, "worktree_failed", out[-200:]
    try:
        rc, out = sh(f"git apply {os.path.join(d, 'patch.diff')}", cwd=wt)
        if rc:
            return sid, "patch_does_not_apply", out.strip().splitlines()[-1][:160] if out.strip() else ""
        env = dict(os.environ, VERIF_REPO=wt, VERIF_MUTANT="1")
        caught, sigs = [], set()
        for prop in m["caught_by"]:
            rc, out = sh(f"/venv/bin/python run_check.py --property {prop} --tier quick", HERE, env=env)
            if rc == 1:
                caught.append(prop)
                sigs |= {l.split("signature=")[1].strip() for l in out.splitlines() if "signature=" in l}
            elif rc != 0:
                return sid, "harness_error", f"{prop}: rc={rc} {out[-200:]}"
        return sid, ("caught" if caught else "MISSED"), f"{','.join(caught)}: {'; '.join(sorted(sigs)[:3])}"
    finally:
        sh(f"git -C {REPO} worktree remove --force {wt}")


def main():
    ap = argparse.ArgumentParser()
    ap.add_argument("--props")
    ap.add_argument("--jobs", type=int, default=4)
    ap.add_argument("--out")
    a = ap.parse_args()
    want = set(a.props.split(",")) if a.props else None
    dirs = []
    for d in sorted(glob.glob(os.path.join(HERE, "seeded", "S*/"))):
        m = json.load(open(os.path.join(d, "meta.json")))
        if not m.get("caught_by"):
            continue
        if want and not (want & set(m["caught_by"]) or m["breaks_property"] in want):
            continue
        dirs.append(d)
    rows = []
    with ThreadPoolExecutor(a.jobs) as ex:
        for r in ex.map(one, dirs):
            rows.append(r)
            print(*r, flush=True)
    if a.out and want and os.path.exists(os.path.join(HERE, a.out)):
        # a partial pass: keep the rows of the seeds that were not run again
        redone = {r[0] for r in rows}
        for line in open(os.path.join(HERE, a.out)):
            cells = [c.strip() for c in line.strip().strip("|").split("|")]
            if line.startswith("| S") and len(cells) == 3 and cells[0] not in redone:
                rows.append(tuple(cells))
        rows.sort()
    n = {}
    for _s, st, _d in rows:
        n[st] = n.get(st, 0) + 1
    head = subprocess.run(f"git -C {REPO} rev-parse --short HEAD", shell=True, capture_output=True, text=True).stdout.strip()
    summary = f"{len(rows)} seeded changes re-run against /repo {head}: " + ", ".join(f"{v} {k}" for k, v in sorted(n.items()))
    print(summary)
    if a.out:
        with open(os.path.join(HERE, a.out), "w") as f:
            f.write("# Regression pass over the seeded changes (tools/seeded_recheck.py)\n\n" + summary + "\n\n| seed | result | checks: signatures |\n|---|---|---|\n")
            for r in rows:
                f.write(f"| {r[0]} | {r[1]} | {r[2]} |\n")
    sh(f"git -C {REPO} worktree prune")
    return 0 if not n.get("MISSED") and not n.get("harness_error") else 1


if __name__ == "__main__":
    sys.exit(main())
