#!/venv/bin/python
"""Sensitivity suite: apply each mutant (a realistic breaking change) to a scratch copy of the repository
(outside /repo and /verif, removed afterwards) and require the named quick check to exit 1.

usage: tools/mutate.py [--only ID,...] [--tests]   (--tests also runs the repo's 209 tests on the mutant)
Mutants live in mutants/*.json: {id, property, check (optional), file, old, new, note}.
"""
import argparse
import glob
import json
import os
import shutil
import subprocess
import sys
import tempfile

HERE = os.path.dirname(os.path.dirname(os.path.abspath(__file__)))
REPO = os.environ.get("VERIF_REPO", "/repo")


def run_one(m, tests, scale):
    tmp = tempfile.mkdtemp(prefix="mut_", dir="/tmp")
    dst = os.path.join(tmp, "repo")
    try:
        shutil.copytree(REPO, dst, ignore=shutil.ignore_patterns(".git", "traces", "*.egg-info", "__pycache__", "plots"))
        edits = m["edits"] if "edits" in m else [m]
        for e in edits:
            path = os.path.join(dst, e["file"])
            src = open(path).read()
            if src.count(e["old"]) != 1:
                return m["id"], "STALE", f"pattern occurs {src.count(e['old'])}x in {e['file']}"
            open(path, "w").write(src.replace(e["old"], e["new"]))
        tests_ok = None
        if tests:
            r = subprocess.run(["/venv/bin/python", "-m", "pytest", "-q", "-p", "no:cacheprovider", "-x", "--timeout=900"], cwd=dst, capture_output=True, text=True)
            tests_ok = r.returncode == 0
        env = dict(os.environ, VERIF_REPO=dst, VERIF_MUTANT="1", VERIF_SCALE=str(scale))
        cmd = ["/venv/bin/python", os.path.join(HERE, "run_check.py"), "--property", m["property"], "--tier", "quick"]
        if m.get("check"):
            cmd += ["--check", m["check"]]
        r = subprocess.run(cmd, cwd=HERE, env=env, capture_output=True, text=True)
        killed = r.returncode == 1 and "VIOLATION" in r.stdout
        sig = [l for l in r.stdout.splitlines() if "signature=" in l][:2]
        return m["id"], ("KILLED" if killed else f"SURVIVED(rc={r.returncode})"), f"tests_pass={tests_ok} {sig} {r.stderr[-300:] if r.returncode == 2 else ''}"
    finally:
        shutil.rmtree(tmp, ignore_errors=True)
        # (with VERIF_MUTANT=1 the runner writes replays and evidence under .work/changed_tree, not into the corpus)


def main():
    ap = argparse.ArgumentParser()
    ap.add_argument("--only")
    ap.add_argument("--tests", action="store_true")
    ap.add_argument("--scale", type=float, default=1.0)
    ap.add_argument("--results", help="write a markdown table of the results to this file")
    a = ap.parse_args()
    ms = []
    for f in sorted(glob.glob(os.path.join(HERE, "mutants", "*.json"))):
        ms.extend(json.load(open(f)))
    if a.only:
        want = set(a.only.split(","))
        ms = [m for m in ms if m["id"] in want or m["property"] in want]
    survived = 0
    rows = []
    for m in ms:
        mid, status, detail = run_one(m, a.tests, a.scale)
        print(f"{mid:28s} {m['property']} {status:16s} {detail}", flush=True)
        survived += not status.startswith("KILLED")
        sigs = sorted(set(__import__("re").findall(r"signature=([^'\]]+)", detail)))
        rows.append((mid, m["property"], status, "; ".join(sigs), m.get("note", "")))
    print(f"{len(ms) - survived}/{len(ms)} mutants killed")
    if a.results:
        with open(a.results, "w") as f:
            f.write("# Mutation results (tools/mutate.py, quick tier, VERIF_SEED=%s)\n\n" % os.environ.get("VERIF_SEED", "1"))
            f.write(f"{len(ms) - survived}/{len(ms)} mutants killed. Each mutant is applied to a scratch copy of the repository; KILLED = the named quick check exits 1 with a VIOLATION line.\n\n")
            f.write("| mutant | property | result | signatures | what it changes |\n|---|---|---|---|---|\n")
            for r in rows:
                f.write("| " + " | ".join(x.replace("|", "/") for x in r) + " |\n")
    return 1 if survived else 0


if __name__ == "__main__":
    sys.exit(main())
