"""Oracles over a RunRecord (see simrun.py): one judge per end-to-end property."""
from pbt.runner import Violation
from pbt.simrun import final_tasks, tkey, us


def rows_of(rec):
    out = []
    for i, r in enumerate(rec.rows):
        parts = r.split(",")
        if len(parts) >= 2:
            out.append((i, parts))
    return out


def spec_parents(spec):
    """job name -> (terminal?, conditional?, [parent job names], [children job names], probability)."""
    out = {}
    for g in spec["graphs"]:
        names = [j["name"] for j in g["jobs"]]
        parents = {n: [] for n in names}
        for j in g["jobs"]:
            for c in j["children"]:
                parents[names[c]].append(j["name"])
        for j in g["jobs"]:
            out[j["name"]] = {
                "terminal": j.get("terminal", False),
                "conditional": j.get("conditional", False),
                "parents": parents[j["name"]],
                "children": [names[c] for c in j["children"]],
                "probability": j.get("probability", 1.0),
                "graph": g["name"],
            }
    return out


def history(rec, key, op=None):
    h = rec.mon.tasks.get(key, {"history": []})["history"]
    return [x for x in h if (op is None or x[0] == op) and x[6] is None]


def short(spec):
    pol = spec["policy"]
    return f"policy={pol} flags={spec['flags']}"


# ----------------------------------------------------------------------------- C01
def judge_c01(rec):
    V = []
    spec = rec.spec
    for kind, detail in rec.mon.ledger_violations[:3]:
        V.append(Violation(kind, f"{detail}; {short(spec)}", f"c01.{kind}"))
    # TASK_PLACEMENT rows: the allocation names instances of exactly one live worker
    inst = {}  # resource id -> worker name
    for wid, w in rec.world["info"]["workers"].items():
        for r, _q in w["obj"].resources.resources:
            inst[r.id] = w["name"]
    for i, p in rows_of(rec):
        if p[1] == "TASK_PLACEMENT":
            alloc = p[8:]
            workers = set()
            for j in range(0, len(alloc) - 2, 3):
                workers.add(inst.get(alloc[j + 1], f"<unknown {alloc[j + 1]}>"))
            if len(workers) > 1 or any(w.startswith("<unknown") for w in workers):
                V.append(Violation("allocation_spans_workers", f"row {p}: instances belong to {sorted(workers)}", "c01.allocation_spans_workers"))
                break
    # WORKER_POOL_UTILIZATION rows agree with the shadow ledger at that instant
    pool_total = {}
    for sh in rec.mon.workers.values():
        d = pool_total.setdefault(sh["pool_id"], {})
        for t, c in sh["capacity"].items():
            d[t] = d.get(t, 0) + c
    snaps = rec.mon.util_snapshots
    allrows = rec.rows
    bad = None
    for si, (start, snap) in enumerate(snaps):
        end = snaps[si + 1][0] if si + 1 < len(snaps) else len(allrows)
        for r in allrows[start:end]:
            p = r.split(",")
            if len(p) >= 6 and p[1] == "WORKER_POOL_UTILIZATION":
                pool, t, alloc, avail = p[2], p[3], int(p[4]), int(p[5])
                exp = snap.get(pool, {}).get(t)
                if exp is None or alloc != exp or alloc + avail != pool_total.get(pool, {}).get(t):
                    bad = f"row {r}: shadow occupancy {exp}, pool total {pool_total.get(pool, {}).get(t)}"
                    break
            else:
                break  # utilisation rows are contiguous right after the snapshot
        if bad:
            break
    if bad:
        V.append(Violation("utilization_row", f"{bad}; {short(spec)}", "c01.utilization_row"))
    return V


def nontrivial_c01(rec):
    return rec.mon.max_resident >= 2 or rec.mon.n_deferrals["WORKER_NOT_READY"] > 0


# ----------------------------------------------------------------------------- C02
def judge_c02(rec):
    V = []
    spec = rec.spec
    sp = spec_parents(spec)
    join_start = False
    for key, trec in rec.mon.tasks.items():
        name, graph = key.split("@", 1)
        starts = history(rec, key, "start")
        finishes = history(rec, key, "finish")
        if len(starts) > 1:
            V.append(Violation("started_twice", f"{key} started {len(starts)}x at {[s[1] for s in starts]}; {short(spec)}", "c02.started_twice"))
        if len(finishes) > 1:
            V.append(Violation("finished_twice", f"{key} finished {len(finishes)}x; {short(spec)}", "c02.finished_twice"))
        if not starts:
            continue
        st = starts[0]
        t_start, seq_start = st[1], st[5]
        rel = [h for h in history(rec, key, "release") if h[5] < seq_start]
        if not rel:
            V.append(Violation("start_without_release", f"{key} started at {t_start} without a prior release; {short(spec)}", "c02.start_without_release"))
        else:
            t_rel = rel[-1][1] if rel[-1][1] is not None else us(trec["obj"].release_time)
            if t_rel is not None and t_start < t_rel:
                V.append(Violation("start_before_release", f"{key} started at {t_start}, released at {t_rel}; {short(spec)}", "c02.start_before_release"))
        info = sp.get(name)
        if info is None:
            continue
        parents = [f"{p}@{graph}" for p in info["parents"]]
        if len(parents) >= 2:
            join_start = True
        done = []
        for p in parents:
            fin = [h for h in history(rec, p, "finish") if h[5] < seq_start]
            # completion time = clock at the finish() call (finish() is called without a time)
            done.append(bool(fin) and fin[0][4] <= t_start)
        if parents:
            ok = any(done) if info["terminal"] else all(done)
            if not ok:
                V.append(
                    Violation(
                        "start_before_parents",
                        f"{key} (terminal={info['terminal']}) started at {t_start} but parents finished={dict(zip(parents, done))}; {short(spec)}",
                        "c02.start_before_parents",
                    )
                )
    # trace cross-check
    rel_row, fin_row = {}, {}
    for i, p in rows_of(rec):
        if p[1] == "TASK_RELEASE":
            rel_row[(p[2], p[8])] = int(p[0])
        elif p[1] == "TASK_FINISHED":
            fin_row[(p[2], p[4])] = int(p[0])
    for i, p in rows_of(rec):
        if p[1] == "TASK_PLACEMENT":
            name, graph, t = p[2], p[3], int(p[0])
            if (name, graph) not in rel_row or rel_row[(name, graph)] > t:
                V.append(Violation("trace_placement_before_release", f"row {p} release row at {rel_row.get((name, graph))}", "c02.trace_placement_before_release"))
            info = sp.get(name)
            if info and info["parents"]:
                d = [fin_row.get((q, graph)) is not None and fin_row[(q, graph)] <= t for q in info["parents"]]
                if not (any(d) if info["terminal"] else all(d)):
                    V.append(Violation("trace_placement_before_parents", f"row {p}: parents finished rows {dict(zip(info['parents'], d))}", "c02.trace_placement_before_parents"))
    rec._join_start = join_start
    return V[:6]


def nontrivial_c02(rec):
    early = rec.mon.n_deferrals["TASK_NOT_READY"] > 0 or any(
        pl["placed"] and pl["time"] is not None and pl["time"] > s["time"] for s in rec.mon.sched for pl in s["placements"]
    )
    return getattr(rec, "_join_start", False) or early


# ----------------------------------------------------------------------------- C03
def judge_c03(rec):
    V = []
    spec = rec.spec
    v = spec["flags"].get("runtime_variance", 0)
    fin_row = {}
    for i, p in rows_of(rec):
        if p[1] == "TASK_FINISHED":
            fin_row[(p[2], p[4])] = (int(p[0]), int(p[5]))
    for kind, detail in rec.mon.clock_violations[:3]:
        V.append(Violation(kind, f"{detail}; {short(spec)}", f"c03.{kind}"))
    last = None
    for _seq, typ, t, _k in rec.mon.events:
        if last is not None and t < last:
            V.append(Violation("event_time_decreases", f"{typ} at {t} handled after an event at {last}; {short(spec)}", "c03.event_time_decreases"))
            break
        last = t
    # chosen time per task: the last PLACE decision applied before the start
    for key in rec.mon.tasks:
        starts = history(rec, key, "start")
        if not starts:
            continue
        s = starts[0][1]
        seq_start = starts[0][5]
        places = [p for p in rec.mon.placements.get(key, [])]
        if not places:
            V.append(Violation("start_without_placement", f"{key} started at {s} but was never placed on a worker", "c03.start_without_placement"))
            continue
        r = places[-1][2]
        if places[-1][0] != s:
            V.append(Violation("start_time_vs_placement", f"{key} placed on worker at {places[-1][0]} but started at {s}", "c03.start_time_vs_placement"))
        chosen = None
        for sc in rec.mon.sched:
            if sc["seq"] < seq_start:
                for pl in sc["placements"]:
                    if pl["task"] == key and pl["type"] == "PLACE_TASK" and pl["placed"]:
                        chosen = pl["time"]
        if chosen is not None and s < chosen:
            V.append(Violation("start_before_chosen_time", f"{key} started at {s}, scheduler chose {chosen}; {short(spec)}", "c03.start_before_chosen_time"))
        fins = history(rec, key, "finish")
        if not fins:
            continue
        f = fins[0][4]  # clock at finish()
        obj = rec.mon.tasks[key]["obj"]
        f_obj = us(obj.completion_time)
        lo, hi = r, (r if v == 0 else round(r * (1 + v / 100.0)))
        if not (lo <= f - s <= hi):
            V.append(
                Violation(
                    "duration",
                    f"{key} started {s} with strategy runtime {r} (variance {v}%) but finished at {f} (duration {f - s}, allowed [{lo},{hi}]); {short(spec)}",
                    "c03.duration" + (".zero_runtime" if r == 0 else ""),
                )
            )
        if f_obj != f:
            V.append(Violation("completion_time_field", f"{key}: completion_time={f_obj} but finish() ran at clock {f}", "c03.completion_time_field"))
        rem = rec.mon.removals.get(key, [])
        if len(rem) != 1 or rem[0] != f:
            V.append(Violation("resources_released_at", f"{key}: finished at {f} but removed from worker at {rem}", "c03.resources_released_at"))
        name, graph = key.split("@", 1)
        fr = fin_row.get((name, graph))
        if fr is None or fr[0] != f or fr[1] != f:
            V.append(Violation("finished_row", f"{key}: finished at {f} but TASK_FINISHED row says {fr}", "c03.finished_row"))
    for d in rec.mon.deferrals[:3]:
        V.append(Violation("unjustified_" + d["kind"].lower(), f"{d}; {short(spec)}", "c03.unjustified_" + d["kind"].lower()))
    return V[:6]


def nontrivial_c03(rec):
    # >= 1 pair of same-time events of different types, or a deferral
    seen = {}
    for _seq, typ, t, _k in rec.mon.events:
        if typ in ("TASK_FINISHED", "TASK_RELEASE", "TASK_PLACEMENT", "SCHEDULER_START", "SCHEDULER_FINISHED"):
            seen.setdefault(t, set()).add(typ)
    return any(len(s) >= 3 for s in seen.values()) or sum(rec.mon.n_deferrals.values()) > 0


# ----------------------------------------------------------------------------- C04 (end-to-end clause)
def judge_c04_e2e(rec):
    V = []
    for m in rec.mon.repo_ledger_mismatch[:3]:
        V.append(Violation("sim_ledger_mismatch", f"{m}; {short(rec.spec)}", "c04.sim_ledger_mismatch"))
    return V


# ----------------------------------------------------------------------------- C05
def fits_empty_cluster(spec, strategy):
    from pbt.specs import all_workers, worker_capacity

    for w in all_workers(spec["cluster"]):
        cap = worker_capacity(w)
        if all(cap.get(t, 0) >= q for t, q in strategy["resources"].items()):
            return True
    return False


def task_profile(spec, job_name):
    for g in spec["graphs"]:
        for j in g["jobs"]:
            if j["name"] == job_name:
                return spec["profiles"][j["profile"]]
    return None


def judge_c05(rec):
    V = []
    spec = rec.spec
    fl = spec["flags"]
    timeout = fl.get("loop_timeout")
    pol = spec["policy"]
    cls = []
    if fl.get("run_at_worker_free"):
        cls.append("run_at_worker_free")
    zero = any(s["runtime"] == 0 for p in spec["profiles"] for s in p["strategies"])
    if zero:
        cls.append("zero_runtime")
    tag = "." + "+".join(cls) if cls else ""
    if rec.abort and rec.abort[0] == "livelock":
        V.append(Violation("livelock", f"{rec.abort[1]}; {short(spec)}", "c05.livelock" + tag))
        return V
    if rec.abort:
        return V  # step budget: inconclusive, counted by the caller
    if rec.exception:
        V.append(Violation("simulate_raises", f"simulate() raised {rec.exception}; {short(spec)}", f"c05.simulate_raises.{rec.exception[0]}.{rec.exception[2]}" + tag))
        return V
    end_rows = [p for _i, p in rows_of(rec) if p[1] == "SIMULATOR_END"]
    if len(end_rows) != 1:
        V.append(Violation("no_end_event", f"{len(end_rows)} SIMULATOR_END rows; {short(spec)}", "c05.no_end_event"))
        return V
    end = int(end_rows[0][0])
    if timeout is not None and (end > timeout or rec.end_time > timeout):
        V.append(Violation("ends_after_timeout", f"SIMULATOR_END at {end}, clock {rec.end_time}, loop timeout {timeout}; {short(spec)}", "c05.ends_after_timeout" + tag))
    tasks = final_tasks(rec)
    sp = spec_parents(spec)
    ended_early = timeout is None or end < timeout
    work_conserving = pol["name"] in ("EDF", "FIFO", "LSF") and not pol.get("enforce_deadlines") and not fl.get("drop_skipped_tasks")
    if ended_early:
        for key, t in tasks.items():
            st = t.state.name
            if st in ("COMPLETED", "CANCELLED"):
                continue
            name, graph = key.split("@", 1)
            prof = task_profile(spec, name)
            feasible = prof is not None and any(fits_empty_cluster(spec, s) for s in prof["strategies"])
            info = sp.get(name, {"parents": [], "terminal": False})
            pstates = [tasks[f"{p}@{graph}"].state.name for p in info["parents"] if f"{p}@{graph}" in tasks]
            done = [s == "COMPLETED" for s in pstates]
            parents_done = (any(done) if info["terminal"] else all(done)) if pstates else True
            if st in ("RELEASED", "SCHEDULED", "RUNNING") and feasible and parents_done:
                V.append(
                    Violation(
                        "ended_with_runnable_work",
                        f"run ended at {end} (timeout {timeout}) with {key} in state {st}, feasible on the empty cluster, parents {pstates}; {short(spec)}",
                        "c05.ended_with_runnable_work" + tag,
                    )
                )
                break
            if work_conserving and spec.get("feasible_by_construction") and feasible and timeout is None:
                # every task must be COMPLETED (or CANCELLED on an untaken conditional branch)
                in_cond = any(j.get("conditional") for g in spec["graphs"] for j in g["jobs"])
                V.append(
                    Violation(
                        "feasible_work_not_finished",
                        f"work-conserving {pol['name']} on a feasible world ended at {end} with {key} in state {st} (parents {pstates}); {short(spec)}",
                        "c05.feasible_work_not_finished" + (".conditional_graph" if in_cond else "") + tag,
                    )
                )
                break
        # closed loop: all N invocations ran
        if work_conserving and spec.get("feasible_by_construction") and timeout is None and not V:
            for g in spec["graphs"]:
                if g["release"]["kind"] == "closed_loop":
                    got = sum(1 for name in rec.graphs if name.split("@")[0] == g["name"])
                    if got != g["release"]["n"]:
                        V.append(Violation("closed_loop_count", f"{g['name']}: {got} invocations ran, {g['release']['n']} declared; {short(spec)}", "c05.closed_loop_count"))
    return V


def nontrivial_c05(rec):
    competing = rec.mon.max_resident >= 2 or rec.mon.n_deferrals["WORKER_NOT_READY"] > 0 or any(
        pl["type"] == "PLACE_TASK" and not pl["placed"] for s in rec.mon.sched for pl in s["placements"]
    )
    starts = [t for _s, typ, t, _k in rec.mon.events if typ == "SCHEDULER_START"]
    pushed = any(b - a > max(1, rec.spec["flags"].get("scheduler_frequency", -1)) for a, b in zip(starts, starts[1:]))
    return competing or pushed
