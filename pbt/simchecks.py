"""Oracles over a RunRecord (see simrun.py): one judge per end-to-end property."""
from pbt.runner import Violation
from pbt.simrun import final_tasks, tkey, us


def rows_of(rec):
    out = []
    for i, r in enumerate(rec.rows):
        parts = r.split(",")
        if len(parts) >= 2:
            out.append((i, parts))
    return out


def spec_parents(spec):
    """job name -> (terminal?, conditional?, [parent job names], [children job names], probability)."""
    out = {}
    for g in spec["graphs"]:
        names = [j["name"] for j in g["jobs"]]
        parents = {n: [] for n in names}
        for j in g["jobs"]:
            for c in j["children"]:
                parents[names[c]].append(j["name"])
        for j in g["jobs"]:
            out[j["name"]] = {
                "terminal": j.get("terminal", False),
                "conditional": j.get("conditional", False),
                "parents": parents[j["name"]],
                "children": [names[c] for c in j["children"]],
                "probability": j.get("probability", 1.0),
                "graph": g["name"],
            }
    return out


def history(rec, key, op=None):
    h = rec.mon.tasks.get(key, {"history": []})["history"]
    return [x for x in h if (op is None or x[0] == op) and x[6] is None]


def short(spec):
    pol = spec["policy"]
    return f"policy={pol} flags={spec['flags']}"


# ----------------------------------------------------------------------------- C01
def judge_c01(rec):
    V = []
    spec = rec.spec
    for kind, detail in rec.mon.ledger_violations[:3]:
        V.append(Violation(kind, f"{detail}; {short(spec)}", f"c01.{kind}"))
    # TASK_PLACEMENT rows: the allocation names instances of exactly one live worker
    inst = {}  # resource id -> names of the workers that own an instance with that id ('any' may be configured on several)
    for wid, w in rec.world["info"]["workers"].items():
        for r, _q in w["obj"].resources.resources:
            inst.setdefault(r.id, set()).add(w["name"])
    for i, p in rows_of(rec):
        if p[1] == "TASK_PLACEMENT":
            alloc = p[8:]
            owners = [inst.get(alloc[j + 1], {f"<unknown {alloc[j + 1]}>"}) for j in range(0, len(alloc) - 2, 3)]
            common = set.intersection(*owners) if owners else {"-"}
            if not common or any(w.startswith("<unknown") for o in owners for w in o):
                V.append(Violation("allocation_spans_workers", f"row {p}: instances belong to {[sorted(o) for o in owners]}", "c01.allocation_spans_workers"))
                break
    # WORKER_POOL_UTILIZATION rows agree with the shadow ledger at that instant
    pool_total = {}
    for sh in rec.mon.workers.values():
        d = pool_total.setdefault(sh["pool_id"], {})
        for t, c in sh["capacity"].items():
            d[t] = d.get(t, 0) + c
    snaps = rec.mon.util_snapshots
    allrows = rec.rows
    bad = None
    for si, (start, snap) in enumerate(snaps):
        end = snaps[si + 1][0] if si + 1 < len(snaps) else len(allrows)
        for r in allrows[start:end]:
            p = r.split(",")
            if len(p) >= 6 and p[1] == "WORKER_POOL_UTILIZATION":
                pool, t, alloc, avail = p[2], p[3], int(p[4]), int(p[5])
                exp = snap.get(pool, {}).get(t)
                if exp is None or alloc != exp or alloc + avail != pool_total.get(pool, {}).get(t):
                    bad = f"row {r}: shadow occupancy {exp}, pool total {pool_total.get(pool, {}).get(t)}"
                    break
            else:
                break  # utilisation rows are contiguous right after the snapshot
        if bad:
            break
    if bad:
        V.append(Violation("utilization_row", f"{bad}; {short(spec)}", "c01.utilization_row"))
    return V


def nontrivial_c01(rec):
    return rec.mon.max_resident >= 2 or rec.mon.n_deferrals["WORKER_NOT_READY"] > 0


# ----------------------------------------------------------------------------- C02
def judge_c02(rec):
    V = []
    spec = rec.spec
    sp = spec_parents(spec)
    join_start = False
    for key, trec in rec.mon.tasks.items():
        name, graph = key.split("@", 1)
        starts = history(rec, key, "start")
        finishes = history(rec, key, "finish")
        if len(starts) > 1:
            V.append(Violation("started_twice", f"{key} started {len(starts)}x at {[s[1] for s in starts]}; {short(spec)}", "c02.started_twice"))
        if len(finishes) > 1:
            V.append(Violation("finished_twice", f"{key} finished {len(finishes)}x; {short(spec)}", "c02.finished_twice"))
        if not starts:
            continue
        st = starts[0]
        t_start, seq_start = st[1], st[5]
        rel = [h for h in history(rec, key, "release") if h[5] < seq_start]
        if not rel:
            V.append(Violation("start_without_release", f"{key} started at {t_start} without a prior release; {short(spec)}", "c02.start_without_release"))
        else:
            t_rel = rel[-1][1] if rel[-1][1] is not None else us(trec["obj"].release_time)
            if t_rel is not None and t_start < t_rel:
                V.append(Violation("start_before_release", f"{key} started at {t_start}, released at {t_rel}; {short(spec)}", "c02.start_before_release"))
            # the release time the workload asked for (graph release, closed-loop follow-up = completion + 1): the release
            # *event* may come later than that, never earlier
            intended = trec["obj"].intended_release_time
            if intended is not None and not intended.is_invalid() and us(intended) >= 0 and t_start < us(intended):
                V.append(Violation("start_before_intended_release", f"{key} started at {t_start} but the workload releases it at {us(intended)} "
                                                                    f"(release event at {t_rel}); {short(spec)}", "c02.start_before_intended_release"))
        info = sp.get(name)
        if info is None:
            continue
        parents = [f"{p}@{graph}" for p in info["parents"]]
        if len(parents) >= 2:
            join_start = True
        done = []
        for p in parents:
            fin = [h for h in history(rec, p, "finish") if h[5] < seq_start]
            # completion time = clock at the finish() call (finish() is called without a time)
            done.append(bool(fin) and fin[0][4] <= t_start)
        if parents:
            ok = any(done) if info["terminal"] else all(done)
            if not ok:
                V.append(
                    Violation(
                        "start_before_parents",
                        f"{key} (terminal={info['terminal']}) started at {t_start} but parents finished={dict(zip(parents, done))}; {short(spec)}",
                        "c02.start_before_parents",
                    )
                )
    # trace cross-check
    rel_row, fin_row = {}, {}
    for i, p in rows_of(rec):
        if p[1] == "TASK_RELEASE":
            rel_row[(p[2], p[8])] = int(p[0])
        elif p[1] == "TASK_FINISHED":
            fin_row[(p[2], p[4])] = int(p[0])
    for i, p in rows_of(rec):
        if p[1] == "TASK_PLACEMENT":
            name, graph, t = p[2], p[3], int(p[0])
            if (name, graph) not in rel_row or rel_row[(name, graph)] > t:
                V.append(Violation("trace_placement_before_release", f"row {p} release row at {rel_row.get((name, graph))}", "c02.trace_placement_before_release"))
            info = sp.get(name)
            if info and info["parents"]:
                d = [fin_row.get((q, graph)) is not None and fin_row[(q, graph)] <= t for q in info["parents"]]
                if not (any(d) if info["terminal"] else all(d)):
                    V.append(Violation("trace_placement_before_parents", f"row {p}: parents finished rows {dict(zip(info['parents'], d))}", "c02.trace_placement_before_parents"))
    rec._join_start = join_start
    return V[:6]


def nontrivial_c02(rec):
    early = rec.mon.n_deferrals["TASK_NOT_READY"] > 0 or any(
        pl["placed"] and pl["time"] is not None and pl["time"] > s["time"] for s in rec.mon.sched for pl in s["placements"]
    )
    return getattr(rec, "_join_start", False) or early


# ----------------------------------------------------------------------------- C03
def judge_c03(rec):
    V = []
    spec = rec.spec
    v = spec["flags"].get("runtime_variance", 0)
    fin_row = {}
    for i, p in rows_of(rec):
        if p[1] == "TASK_FINISHED":
            fin_row[(p[2], p[4])] = (int(p[0]), int(p[5]))
    for kind, detail in rec.mon.clock_violations[:3]:
        V.append(Violation(kind, f"{detail}; {short(spec)}", f"c03.{kind}"))
    last = None
    for _seq, typ, t, _k in rec.mon.events:
        if last is not None and t < last:
            V.append(Violation("event_time_decreases", f"{typ} at {t} handled after an event at {last}; {short(spec)}", "c03.event_time_decreases"))
            break
        last = t
    # chosen time per task: the last PLACE decision applied before the start
    for key in rec.mon.tasks:
        starts = history(rec, key, "start")
        if not starts:
            continue
        s = starts[0][1]
        seq_start = starts[0][5]
        places = [p for p in rec.mon.placements.get(key, [])]
        if not places:
            V.append(Violation("start_without_placement", f"{key} started at {s} but was never placed on a worker", "c03.start_without_placement"))
            continue
        r = places[-1][2]
        if places[-1][0] != s:
            V.append(Violation("start_time_vs_placement", f"{key} placed on worker at {places[-1][0]} but started at {s}", "c03.start_time_vs_placement"))
        chosen = None
        for sc in rec.mon.sched:
            if sc["seq"] < seq_start:
                for pl in sc["placements"]:
                    if pl["task"] == key and pl["type"] == "PLACE_TASK" and pl["placed"]:
                        chosen = pl["time"]
        if chosen is not None and s < chosen:
            V.append(Violation("start_before_chosen_time", f"{key} started at {s}, scheduler chose {chosen}; {short(spec)}", "c03.start_before_chosen_time"))
        fins = history(rec, key, "finish")
        if not fins:
            continue
        f = fins[0][4]  # clock at finish()
        obj = rec.mon.tasks[key]["obj"]
        f_obj = us(obj.completion_time)
        lo, hi = r, (r if v == 0 else round(r * (1 + v / 100.0)))
        if not (lo <= f - s <= hi):
            V.append(
                Violation(
                    "duration",
                    f"{key} started {s} with strategy runtime {r} (variance {v}%) but finished at {f} (duration {f - s}, allowed [{lo},{hi}]); {short(spec)}",
                    "c03.duration" + (".zero_runtime" if r == 0 else ""),
                )
            )
        if f_obj != f:
            V.append(Violation("completion_time_field", f"{key}: completion_time={f_obj} but finish() ran at clock {f}", "c03.completion_time_field"))
        rem = rec.mon.removals.get(key, [])
        if len(rem) != 1 or rem[0] != f:
            V.append(Violation("resources_released_at", f"{key}: finished at {f} but removed from worker at {rem}", "c03.resources_released_at"))
        name, graph = key.split("@", 1)
        fr = fin_row.get((name, graph))
        if fr is None or fr[0] != f or fr[1] != f:
            V.append(Violation("finished_row", f"{key}: finished at {f} but TASK_FINISHED row says {fr}", "c03.finished_row"))
    for d in rec.mon.deferrals[:3]:
        V.append(Violation("unjustified_" + d["kind"].lower(), f"{d}; {short(spec)}", "c03.unjustified_" + d["kind"].lower()))
    return V[:6]


def nontrivial_c03(rec):
    # >= 1 pair of same-time events of different types, or a deferral
    seen = {}
    for _seq, typ, t, _k in rec.mon.events:
        if typ in ("TASK_FINISHED", "TASK_RELEASE", "TASK_PLACEMENT", "SCHEDULER_START", "SCHEDULER_FINISHED"):
            seen.setdefault(t, set()).add(typ)
    return any(len(s) >= 3 for s in seen.values()) or sum(rec.mon.n_deferrals.values()) > 0


# ----------------------------------------------------------------------------- C04 (end-to-end clause)
def judge_c04_e2e(rec):
    V = []
    for m in rec.mon.repo_ledger_mismatch[:3]:
        V.append(Violation("sim_ledger_mismatch", f"{m}; {short(rec.spec)}", "c04.sim_ledger_mismatch"))
    return V


# ----------------------------------------------------------------------------- C05
def fits_empty_cluster(spec, strategy):
    from pbt.specs import all_workers, worker_capacity

    for w in all_workers(spec["cluster"]):
        cap = worker_capacity(w)
        if all(cap.get(t, 0) >= q for t, q in strategy["resources"].items()):
            return True
    return False


def task_profile(spec, job_name):
    for g in spec["graphs"]:
        for j in g["jobs"]:
            if j["name"] == job_name:
                return spec["profiles"][j["profile"]]
    return None


def judge_c05(rec):
    V = []
    spec = rec.spec
    fl = spec["flags"]
    timeout = fl.get("loop_timeout")
    pol = spec["policy"]
    cls = []
    if fl.get("run_at_worker_free"):
        cls.append("run_at_worker_free")
    zero = any(s["runtime"] == 0 for p in spec["profiles"] for s in p["strategies"])
    if zero:
        cls.append("zero_runtime")
    tag = "." + "+".join(cls) if cls else ""
    if rec.abort and rec.abort[0] == "livelock":
        V.append(Violation("livelock", f"{rec.abort[1]}; {short(spec)}", "c05.livelock" + tag))
        return V
    if rec.abort:
        return V  # step budget: inconclusive, counted by the caller
    if rec.exception:
        V.append(Violation("simulate_raises", f"simulate() raised {rec.exception}; {short(spec)}", f"c05.simulate_raises.{rec.exception[0]}.{rec.exception[2]}" + tag))
        return V
    end_rows = [p for _i, p in rows_of(rec) if p[1] == "SIMULATOR_END"]
    if len(end_rows) != 1:
        V.append(Violation("no_end_event", f"{len(end_rows)} SIMULATOR_END rows; {short(spec)}", "c05.no_end_event"))
        return V
    end = int(end_rows[0][0])
    if timeout is not None and (end > timeout or rec.end_time > timeout):
        V.append(Violation("ends_after_timeout", f"SIMULATOR_END at {end}, clock {rec.end_time}, loop timeout {timeout}; {short(spec)}", "c05.ends_after_timeout" + tag))
    tasks = final_tasks(rec)
    sp = spec_parents(spec)
    ended_early = timeout is None or end < timeout
    work_conserving = pol["name"] in ("EDF", "FIFO", "LSF") and not pol.get("enforce_deadlines") and not fl.get("drop_skipped_tasks")
    if ended_early:
        for key, t in tasks.items():
            st = t.state.name
            if st in ("COMPLETED", "CANCELLED"):
                continue
            name, graph = key.split("@", 1)
            prof = task_profile(spec, name)
            feasible = prof is not None and any(fits_empty_cluster(spec, s) for s in prof["strategies"])
            info = sp.get(name, {"parents": [], "terminal": False})
            pstates = [tasks[f"{p}@{graph}"].state.name for p in info["parents"] if f"{p}@{graph}" in tasks]
            done = [s == "COMPLETED" for s in pstates]
            parents_done = (any(done) if info["terminal"] else all(done)) if pstates else True
            if st in ("RELEASED", "SCHEDULED", "RUNNING") and feasible and parents_done and pol["name"] != "Scripted":
                # (the generated plan-ahead policy may decline a runnable task for good: only the bundled policies promise this)
                V.append(
                    Violation(
                        "ended_with_runnable_work",
                        f"run ended at {end} (timeout {timeout}) with {key} in state {st}, feasible on the empty cluster, parents {pstates}; {short(spec)}",
                        "c05.ended_with_runnable_work" + tag,
                    )
                )
                break
            if work_conserving and spec.get("feasible_by_construction") and feasible and timeout is None:
                # every task must be COMPLETED (or CANCELLED on an untaken conditional branch)
                in_cond = any(j.get("conditional") for g in spec["graphs"] for j in g["jobs"])
                V.append(
                    Violation(
                        "feasible_work_not_finished",
                        f"work-conserving {pol['name']} on a feasible world ended at {end} with {key} in state {st} (parents {pstates}); {short(spec)}",
                        "c05.feasible_work_not_finished" + (".conditional_graph" if in_cond else "") + tag,
                    )
                )
                break
        # closed loop: all N invocations ran
        if work_conserving and spec.get("feasible_by_construction") and timeout is None and not V:
            for g in spec["graphs"]:
                if g["release"]["kind"] == "closed_loop":
                    got = sum(1 for name in rec.graphs if name.split("@")[0] == g["name"])
                    if got != g["release"]["n"]:
                        V.append(Violation("closed_loop_count", f"{g['name']}: {got} invocations ran, {g['release']['n']} declared; {short(spec)}", "c05.closed_loop_count"))
    return V


def nontrivial_c05(rec):
    competing = rec.mon.max_resident >= 2 or rec.mon.n_deferrals["WORKER_NOT_READY"] > 0 or any(
        pl["type"] == "PLACE_TASK" and not pl["placed"] for s in rec.mon.sched for pl in s["placements"]
    )
    starts = [t for _s, typ, t, _k in rec.mon.events if typ == "SCHEDULER_START"]
    pushed = any(b - a > max(1, rec.spec["flags"].get("scheduler_frequency", -1)) for a, b in zip(starts, starts[1:]))
    return competing or pushed


# ----------------------------------------------------------------------------- C06
ALLOWED = {
    ("VIRTUAL", "RELEASED"), ("VIRTUAL", "SCHEDULED"), ("RELEASED", "SCHEDULED"), ("SCHEDULED", "SCHEDULED"),
    ("SCHEDULED", "RELEASED"), ("SCHEDULED", "VIRTUAL"), ("SCHEDULED", "RUNNING"), ("RUNNING", "COMPLETED"),
    ("VIRTUAL", "CANCELLED"), ("RELEASED", "CANCELLED"), ("SCHEDULED", "CANCELLED"),
    ("VIRTUAL", "VIRTUAL"), ("RELEASED", "RELEASED"),
}


def graph_structure(spec, gname):
    """names, parents, children, topo order of the job graph `gname` from the spec."""
    g = next(x for x in spec["graphs"] if x["name"] == gname)
    names = [j["name"] for j in g["jobs"]]
    children = {j["name"]: [names[c] for c in j["children"]] for j in g["jobs"]}
    parents = {n: [] for n in names}
    for n, cs in children.items():
        for c in cs:
            parents[c].append(n)
    indeg = {n: len(parents[n]) for n in names}
    order = [n for n in names if indeg[n] == 0]
    i = 0
    while i < len(order):
        for c in children[order[i]]:
            indeg[c] -= 1
            if indeg[c] == 0:
                order.append(c)
        i += 1
    jobs = {j["name"]: j for j in g["jobs"]}
    return names, parents, children, order, jobs


def reach_from(children, start):
    seen, stack = set(), [start]
    while stack:
        n = stack.pop()
        for c in children[n]:
            if c not in seen:
                seen.add(c)
                stack.append(c)
    return seen


def judge_c06(rec):
    V = []
    spec = rec.spec
    tasks = final_tasks(rec)
    n_unsched = 0
    for key, trec in rec.mon.tasks.items():
        released = False
        for (op, t, before, after, now, seq, err) in trec["history"]:
            if err is not None:
                continue  # the guard refused the operation: nothing changed
            if op == "unschedule":
                n_unsched += 1
            if (before, after) not in ALLOWED:
                V.append(Violation("illegal_transition", f"{key}: {op} moved {before} -> {after} at t={now}; {short(spec)}", f"c06.illegal_transition.{before}_{after}"))
            if op == "release" and after in ("RELEASED", "SCHEDULED"):
                released = True
            if before in ("COMPLETED", "CANCELLED") and after != before:
                V.append(Violation("left_final_state", f"{key}: {op} moved {before} -> {after}; {short(spec)}", "c06.left_final_state"))
            if op == "unschedule" and released and after == "VIRTUAL":
                V.append(Violation("released_task_back_to_virtual", f"{key}: unschedule at t={now} returned an already released task to VIRTUAL; {short(spec)}", "c06.released_task_back_to_virtual"))
    rec._n_unsched = n_unsched
    # closure of cancellation, per task graph
    cancel_rows = {}
    finished_graph_rows = {}
    for _i, p in rows_of(rec):
        if p[1] == "TASK_CANCEL":
            cancel_rows[(p[2], p[5])] = cancel_rows.get((p[2], p[5]), 0) + 1
        elif p[1] == "TASK_GRAPH_FINISHED":
            finished_graph_rows[p[2]] = finished_graph_rows.get(p[2], 0) + 1
    cascade = False
    ended_clean = rec.abort is None and rec.exception is None
    for gname, tg in rec.graphs.items():
        base = gname.split("@")[0]
        names, parents, children, order, jobs = graph_structure(spec, base)
        state = {n: tasks[f"{n}@{gname}"].state.name for n in names if f"{n}@{gname}" in tasks}
        if len(state) != len(names):
            continue
        dead = {n for n in names if state[n] == "CANCELLED"}
        for n in order:
            if n in dead or not parents[n]:
                continue
            pd = [p in dead for p in parents[n]]
            must = all(pd) if jobs[n].get("terminal") else any(pd)
            if must:
                cascade = True
                started = bool(history(rec, f"{n}@{gname}", "start"))
                V.append(
                    Violation(
                        "cancellation_not_closed",
                        f"{n}@{gname} (terminal={jobs[n].get('terminal', False)}) is {state[n]} (started={started}) although parents "
                        f"{ {p: state[p] for p in parents[n]} } can no longer deliver its inputs; {short(spec)}",
                        "c06.cancellation_not_closed" + (".nested_conditional" if _nested(spec, base) else ""),
                    )
                )
                dead.add(n)
        for n in dead:
            if children[n]:
                cascade = True
            if state[n] == "CANCELLED":
                if history(rec, f"{n}@{gname}", "start"):
                    V.append(Violation("cancelled_task_ran", f"{n}@{gname} is CANCELLED but has a start; {short(spec)}", "c06.cancelled_task_ran"))
                if ended_clean and cancel_rows.get((n, gname), 0) != 1:
                    V.append(Violation("cancel_row", f"{n}@{gname} is CANCELLED but has {cancel_rows.get((n, gname), 0)} TASK_CANCEL rows; {short(spec)}", "c06.cancel_row_count"))
        sinks = [n for n in names if not children[n]]
        complete = all(state[n] == "COMPLETED" for n in sinks)
        rows = finished_graph_rows.get(gname, 0)
        if complete != (rows == 1) or rows > 1:
            V.append(Violation("graph_finished_row", f"{gname}: sinks { {n: state[n] for n in sinks} } but {rows} TASK_GRAPH_FINISHED rows; {short(spec)}", "c06.graph_finished_row"))
        try:
            if bool(tg.is_complete()) != complete:
                V.append(Violation("is_complete", f"{gname}: TaskGraph.is_complete()={tg.is_complete()} but sinks { {n: state[n] for n in sinks} }", "c06.is_complete"))
        except Exception as e:
            V.append(Violation("is_complete_raises", f"{gname}: {type(e).__name__}: {e}", "c06.is_complete_raises"))
    rec._cascade = cascade
    return V[:6]


def _nested(spec, gname):
    """Does the graph contain a conditional node inside another conditional's branch?"""
    names, parents, children, order, jobs = graph_structure(spec, gname)
    conds = [n for n in names if jobs[n].get("conditional")]
    for c in conds:
        inside = reach_from(children, c)
        if any(o != c and o in inside for o in conds):
            return True
    return False


def nontrivial_c06(rec):
    return getattr(rec, "_cascade", False) or getattr(rec, "_n_unsched", 0) > 0


# ----------------------------------------------------------------------------- C07
def matching_terminal(names, parents, children, order, jobs, cond):
    kids = children[cond]
    if not kids:
        return None
    common = None
    for k in kids:
        r = reach_from(children, k) | {k}
        common = r if common is None else common & r
    terms = [n for n in order if n in common and jobs[n].get("terminal")]
    return terms[0] if terms else None


def judge_c07(rec):
    V = []
    spec = rec.spec
    tasks = final_tasks(rec)
    resolved = 0
    strict = rec.abort is None and rec.exception is None and spec["flags"].get("loop_timeout") is None
    for gname in rec.graphs:
        base = gname.split("@")[0]
        names, parents, children, order, jobs = graph_structure(spec, base)
        state = {n: tasks[f"{n}@{gname}"].state.name for n in names if f"{n}@{gname}" in tasks}
        if len(state) != len(names):
            continue
        for c in names:
            if not jobs[c].get("conditional") or state[c] != "COMPLETED":
                continue
            kids = children[c]
            if len(kids) < 1:
                continue
            fin = history(rec, f"{c}@{gname}", "finish")
            seq_fin = fin[0][5] if fin else 0
            released = [k for k in kids if any(h[0] == "release" and h[5] > seq_fin for h in history(rec, f"{k}@{gname}"))]
            alive = [k for k in kids if state[k] != "CANCELLED"]
            init_p = {k: rec.mon.initial_prob.get(f"{k}@{gname}", jobs[k].get("probability", 1.0)) for k in kids}
            if sum(1 for k in kids if init_p[k] > 0) >= 2:
                resolved += 1
            tag = ".nested" if _nested(spec, base) else ""
            all_zero = all(init_p[k] <= 0 for k in kids)
            spec_p = {k: jobs[k].get("probability", 1.0) for k in kids}
            if all_zero and any(p > 0 for p in spec_p.values()):
                # the description gives some child a chance, the instantiated graph gives none: the conditional ran (it is
                # COMPLETED) and no branch can follow it
                V.append(Violation("instantiation_zeroed_every_branch", f"{c}@{gname} completed; described probabilities {spec_p}, at instantiation {init_p}, "
                                                                         f"children states { {k: state[k] for k in kids} }; {short(spec)}", "c07.instantiation_zeroed_every_branch" + tag))
                continue
            if all_zero:
                if alive and strict:
                    V.append(Violation("zero_probability_branch_alive", f"{c}@{gname}: all children have probability 0 but {alive} are not cancelled; {short(spec)}", "c07.zero_probability_branch_alive" + tag))
                continue
            if len(alive) != 1:
                if strict or len(alive) > 1:
                    V.append(Violation("not_exactly_one_branch", f"{c}@{gname} completed; children states { {k: state[k] for k in kids} } probabilities {init_p}; {short(spec)}", "c07.not_exactly_one_branch" + tag))
                continue
            taken = alive[0]
            if init_p[taken] <= 0:
                V.append(Violation("zero_probability_branch_taken", f"{c}@{gname}: took {taken} with probability {init_p[taken]} ({init_p}); {short(spec)}", "c07.zero_probability_branch_taken" + tag))
            if spec["flags"].get("resolve_conditionals_at_submission") and init_p[taken] != 1.0:
                V.append(Violation("not_the_branch_resolved_at_submission", f"{c}@{gname}: took {taken}, probabilities at submission {init_p}; {short(spec)}", "c07.not_the_branch_resolved_at_submission" + tag))
            if released and released != [taken]:
                V.append(Violation("released_children", f"{c}@{gname}: released {released} but live child is {taken}; {short(spec)}", "c07.released_children" + tag))
            T = matching_terminal(names, parents, children, order, jobs, c)
            if T is None:
                continue
            after_T = reach_from(children, T) | {T}
            for k in kids:
                if k == taken:
                    continue
                inside = (reach_from(children, k) | {k}) - after_T
                # nodes shared with the taken branch cannot exist in well-formed regions
                for n in inside:
                    if state[n] != "CANCELLED" or history(rec, f"{n}@{gname}", "start"):
                        V.append(
                            Violation(
                                "untaken_branch_not_cancelled",
                                f"{c}@{gname} took {taken}; {n} on the branch of {k} is {state[n]} (started={bool(history(rec, f'{n}@{gname}', 'start'))}); {short(spec)}",
                                "c07.untaken_branch_not_cancelled" + tag,
                            )
                        )
                        break
            no_cancel_source = (not spec["flags"].get("drop_skipped_tasks") and not spec["policy"].get("enforce_deadlines")
                                and spec["policy"]["name"] in ("EDF", "FIFO", "LSF", "Scripted"))
            if no_cancel_source and state[T] == "CANCELLED":
                # the conditional ran (so it is on a taken path) and nothing in this world cancels on its own: its join can
                # only have been cancelled by mistake, whatever the policy does or does not place
                V.append(Violation("join_cancelled", f"{c}@{gname} took {taken} ({state[taken]}); its join {T} is CANCELLED; {short(spec)}", "c07.join_cancelled" + tag))
            if strict and getattr(rec, "_c07_must_finish", False):
                # the join and everything after it ran exactly once - unless an enclosing branch was itself not taken
                for n in after_T:
                    if state[n] == "CANCELLED":
                        continue  # judged by the enclosing conditional
                    st = history(rec, f"{n}@{gname}", "start")
                    if state[n] != "COMPLETED" or len(st) != 1:
                        V.append(Violation("join_or_successor_did_not_run", f"{c}@{gname} took {taken}; {n} (after join {T}) is {state[n]} with {len(st)} starts; {short(spec)}", "c07.join_or_successor_did_not_run" + tag))
                        break
    rec._resolved = resolved
    return V[:6]


def nontrivial_c07(rec):
    return getattr(rec, "_resolved", 0) > 0


# ----------------------------------------------------------------------------- C08
def judge_c08(rec):
    import os

    from pbt import env

    V = []
    spec = rec.spec
    if rec.abort is not None or rec.exception is not None:
        return V  # no complete trace to judge (C05 owns crashes)
    tasks = final_tasks(rec)
    rows = rows_of(rec)
    by_kind = {}
    for i, p in rows:
        by_kind.setdefault(p[1], []).append(p)
    n_cancel = n_miss = n_fin_graph = 0

    def bad(clause, detail, tag=""):
        V.append(Violation(clause, f"{detail}; {short(spec)}", f"c08.{clause}{tag}"))

    # ---- per-task rows ------------------------------------------------------------
    idx = {}
    for key, t in tasks.items():
        idx[t.id] = (key, t)
    seen = {"TASK_RELEASE": {}, "TASK_FINISHED": {}, "TASK_CANCEL": {}, "MISSED_DEADLINE": {}, "TASK_PLACEMENT": {}}
    for p in by_kind.get("TASK_RELEASE", []):
        tid = p[7]
        seen["TASK_RELEASE"][tid] = seen["TASK_RELEASE"].get(tid, 0) + 1
        if tid not in idx:
            bad("release_row_unknown_task", f"row {p}")
            continue
        key, t = idx[tid]
        rel = history(rec, key, "release")
        exp_t = rel[0][4] if rel else None
        strat = t.available_execution_strategies.get_slowest_strategy()
        truth = [p[0], "TASK_RELEASE", t.name, str(t.timestamp), str(us(t.intended_release_time)), str(us(t.release_time)),
                 str(us(t.deadline)), t.id, t.task_graph, str(us(strat.runtime))]
        if p[:10] != truth or exp_t is None or int(p[0]) != exp_t or int(p[5]) != exp_t:
            bad("release_row", f"row {p} expected {truth} at t={exp_t}")
    for p in by_kind.get("TASK_PLACEMENT", []):
        tid = p[5]
        seen["TASK_PLACEMENT"][tid] = seen["TASK_PLACEMENT"].get(tid, 0) + 1
        if tid not in idx:
            bad("placement_row_unknown_task", f"row {p}")
            continue
        key, t = idx[tid]
        st = history(rec, key, "start")
        pl = rec.mon.placements.get(key, [])
        if not st or not pl:
            bad("placement_row_without_start", f"row {p}")
            continue
        when, wname, runtime, demand, pool_id = pl[-1]
        alloc = {}
        for j in range(8, len(p) - 2, 3):
            alloc[p[j]] = alloc.get(p[j], 0) + int(p[j + 2])
        if int(p[0]) != st[0][1] or p[6] != pool_id or int(p[7]) != runtime or alloc != demand:
            bad("placement_row", f"row {p}: start={st[0][1]} pool={pool_id} runtime={runtime} demand={demand}")
    for p in by_kind.get("TASK_FINISHED", []):
        tid = p[7]
        seen["TASK_FINISHED"][tid] = seen["TASK_FINISHED"].get(tid, 0) + 1
        if tid not in idx:
            bad("finished_row_unknown_task", f"row {p}")
            continue
        key, t = idx[tid]
        truth = [str(us(t.completion_time)), "TASK_FINISHED", t.name, str(t.timestamp), t.task_graph, str(us(t.completion_time)), str(us(t.deadline)), t.id]
        if p != truth or t.state.name != "COMPLETED":
            bad("finished_row", f"row {p} expected {truth} state {t.state.name}")
    for p in by_kind.get("TASK_CANCEL", []):
        tid = p[4]
        seen["TASK_CANCEL"][tid] = seen["TASK_CANCEL"].get(tid, 0) + 1
        if tid not in idx:
            bad("cancel_row_unknown_task", f"row {p}")
            continue
        key, t = idx[tid]
        c = history(rec, key, "cancel")
        if t.state.name != "CANCELLED" or not c or int(p[0]) != c[0][1] or p[2] != t.name or p[5] != t.task_graph:
            bad("cancel_row", f"row {p}: task state {t.state.name}, cancel history {c[:1]}")
    for p in by_kind.get("MISSED_DEADLINE", []):
        tid = p[5]
        seen["MISSED_DEADLINE"][tid] = seen["MISSED_DEADLINE"].get(tid, 0) + 1
    n_completed = n_cancelled = n_late = 0
    for key, t in tasks.items():
        st = t.state.name
        late = st == "COMPLETED" and us(t.completion_time) > us(t.deadline)
        n_completed += st == "COMPLETED"
        n_cancelled += st == "CANCELLED"
        n_late += late
        if (seen["MISSED_DEADLINE"].get(t.id, 0) == 1) != late or seen["MISSED_DEADLINE"].get(t.id, 0) > 1:
            bad("missed_deadline_row", f"{key}: completion {us(t.completion_time)} deadline {us(t.deadline)} state {st} but {seen['MISSED_DEADLINE'].get(t.id, 0)} MISSED_DEADLINE rows")
        if (st == "COMPLETED") != (seen["TASK_FINISHED"].get(t.id, 0) == 1):
            bad("finished_row_count", f"{key}: state {st} with {seen['TASK_FINISHED'].get(t.id, 0)} TASK_FINISHED rows")
        if (st == "CANCELLED") != (seen["TASK_CANCEL"].get(t.id, 0) == 1):
            bad("cancel_row_count", f"{key}: state {st} with {seen['TASK_CANCEL'].get(t.id, 0)} TASK_CANCEL rows")
        if bool(history(rec, key, "start")) != (seen["TASK_PLACEMENT"].get(t.id, 0) == 1):
            bad("placement_row_count", f"{key}: {len(history(rec, key, 'start'))} starts with {seen['TASK_PLACEMENT'].get(t.id, 0)} TASK_PLACEMENT rows")
        if bool(history(rec, key, "release")) != (seen["TASK_RELEASE"].get(t.id, 0) >= 1):
            bad("release_row_count", f"{key}: released={bool(history(rec, key, 'release'))} with {seen['TASK_RELEASE'].get(t.id, 0)} TASK_RELEASE rows")
        n_cancel += st == "CANCELLED"
        n_miss += late
    # ---- graphs ---------------------------------------------------------------------
    g_rel = {p[4]: p for p in by_kind.get("TASK_GRAPH_RELEASE", [])}
    g_fin = {p[2]: p for p in by_kind.get("TASK_GRAPH_FINISHED", [])}
    fin_graphs = canc_graphs = late_graphs = 0
    truth_graph = {}
    for gname, tg in rec.graphs.items():
        nodes = list(tg.get_nodes())
        sinks = [t for t in nodes if not tg.get_children(t)]
        complete = all(t.state.name == "COMPLETED" for t in sinks)
        cancelled = any(t.state.name == "CANCELLED" for t in sinks)
        deadline = max(us(t.deadline) for t in nodes)
        comp = max(us(t.completion_time) for t in sinks) if complete else None
        truth_graph[gname] = (complete, cancelled, deadline, comp, len(nodes))
        fin_graphs += complete
        canc_graphs += cancelled
        late_graphs += bool(complete and comp > deadline)
        if complete:
            n_fin_graph += 1
        closed = "closed_loop" if spec_release_kind(spec, gname) == "closed_loop" else ""
        rel_t0 = min(us(t.release_time) for t in nodes if not tg.get_parents(t))
        if gname not in g_rel and rel_t0 > rec.end_time:
            pass  # released after the end of the run: no row expected
        elif gname not in g_rel:
            bad("graph_release_row_missing", f"task graph {gname} has no TASK_GRAPH_RELEASE row", ".closed_loop" if closed else "")
        else:
            p = g_rel[gname]
            rel_t = min(us(t.release_time) for t in nodes if not tg.get_parents(t))
            if int(p[5]) != len(nodes) or int(p[3]) != deadline:
                bad("graph_release_row", f"row {p}: {len(nodes)} tasks, deadline {deadline}, release {rel_t}")
        if complete:
            p = g_fin.get(gname)
            if p is None or int(p[0]) != comp or int(p[3]) != deadline or int(p[4]) != max(0, comp - deadline):
                bad("graph_finished_row", f"{gname}: completed at {comp}, deadline {deadline}, row {p}")
    # ---- scheduler rows ---------------------------------------------------------------
    starts = by_kind.get("SCHEDULER_START", [])
    fins = by_kind.get("SCHEDULER_FINISHED", [])
    if len(starts) != len(rec.mon.sched) or len(fins) != len(rec.mon.sched):
        bad("scheduler_row_count", f"{len(rec.mon.sched)} invocations, {len(starts)} SCHEDULER_START rows, {len(fins)} SCHEDULER_FINISHED rows")
    else:
        for s, ps, pf in zip(rec.mon.sched, starts, fins):
            placed = sum(1 for pl in s["placements"] if pl["type"] == "PLACE_TASK" and pl["placed"])
            unplaced = sum(1 for pl in s["placements"] if pl["type"] == "PLACE_TASK" and not pl["placed"])
            offered = len(s["offers"][0]) if s["offers"] else None
            if int(ps[0]) != s["time"] or int(ps[3]) != s.get("resident", int(ps[3])):
                bad("scheduler_start_row", f"row {ps}: invocation at {s['time']} with {s.get('resident')} running tasks")
            if offered is not None and int(ps[2]) != offered:
                # root cause classifier: the simulator counts with scheduler.policy (RANDOM for the greedy
                # policies) while the policy fetches its tasks with the default ALL; the two only differ when
                # not-yet-released tasks of a graph with conditionals are offered ahead of time (see C18).
                has_cond = any(j.get("conditional") for g in spec["graphs"] for j in g["jobs"])
                bad("scheduler_start_offer_count", f"row {ps}: the policy was offered {offered} tasks {s['offers'][0]}",
                    ".branch_policy_mismatch_on_early_offer" if has_cond else "")
            if int(pf[3]) != placed:
                bad("scheduler_finished_placed", f"row {pf}: {placed} tasks placed")
            if int(pf[4]) != unplaced:
                bad("scheduler_finished_unplaced", f"row {pf}: {unplaced} PLACE_TASK decisions left unplaced")
                break
    # ---- end-of-run summary -------------------------------------------------------------
    end = by_kind.get("SIMULATOR_END", [])
    if len(end) == 1:
        p = end[0]
        truth = [n_completed, n_cancelled, n_late, fin_graphs, canc_graphs, late_graphs]
        got = [int(x) for x in p[2:8]]
        names = ["finished_tasks", "cancelled_tasks", "missed_task_deadlines", "finished_task_graphs", "cancelled_task_graphs", "missed_task_graph_deadlines"]
        for n, g, tr in zip(names, got, truth):
            if g != tr:
                bad("summary_" + n, f"SIMULATOR_END says {n}={g}, truth {tr} (row {p})")
    # ---- the project's own reader ---------------------------------------------------------
    path = os.path.join(env.WORK_DIR, f"c08_{os.getpid()}.csv")
    with open(path, "w") as f:
        f.write("\n".join(rec.rows) + "\n")
    try:
        from data import CSVReader

        try:
            import contextlib
            import io

            paths = [path]
            if len(rec.rows) % 2 == 0:
                # CSVReader takes a sequence of traces (analyze.py passes several): a companion trace is read first by the same
                # reader - this run's own trace with its task graphs renamed, i.e. what the same run writes for a workload
                # whose graphs have other names.  The reconstruction of `path` must not depend on what was read before it.
                import re

                companion = path[:-4] + "_companion.csv"
                with open(companion, "w") as f:
                    f.write(re.sub(r"\bG(\d+)@", r"H\1@", "\n".join(rec.rows)) + "\n")
                paths = [companion, path]
            with contextlib.redirect_stdout(io.StringIO()):  # the reader prints a line per row type it does not know
                reader = CSVReader(paths)
        except Exception as e:
            cause = e.__cause__ or e
            line = str(e)[:160]
            kind = next((k for k in ("TASK_CANCEL", "TASK_GRAPH_FINISHED", "MISSED_TASK_GRAPH_DEADLINE", "TASK_FINISHED", "TASK_PLACEMENT") if f"'{k}'" in line), "summary_assertion")
            tag = ""
            if any(g["release"]["kind"] == "closed_loop" for g in spec["graphs"]) and isinstance(cause, KeyError):
                tag = ".closed_loop"
            if isinstance(cause, AssertionError):
                # which of the reader's three summary assertions fails, and why
                r_cancel = set()
                for _i, p in rows:
                    if p[1] == "TASK_CANCEL":
                        r_cancel.add(p[5])
                    elif p[1] == "TASK_GRAPH_FINISHED":
                        r_cancel.discard(p[2])
                truth_cancel = {g for g, tr in truth_graph.items() if tr[1]}
                extra = r_cancel - truth_cancel
                if extra and all(any(j.get("conditional") for j in graph_structure(spec, g.split("@")[0])[4].values()) for g in extra):
                    tag = ".unfinished_graph_with_cancelled_branch_counted_as_dropped"
                elif extra:
                    tag = ".reader_counts_more_dropped_graphs"
                elif truth_cancel - r_cancel:
                    tag = ".reader_counts_fewer_dropped_graphs"
            bad("reader_rejects_trace", f"CSVReader raised {type(e).__name__}({type(cause).__name__}: {cause}) {line}", f".{type(cause).__name__}.{kind}{tag}")
            return V[:8]
        simr = reader._simulators[path]
        rt = {t.task_id: t for t in simr.tasks}
        for key, t in tasks.items():
            r = rt.get(t.id)
            if history(rec, key, "release"):
                if r is None:
                    bad("reader_task_missing", f"{key} not reconstructed")
                    continue
                st = history(rec, key, "start")
                truth = (us(t.release_time), us(t.deadline), us(t.completion_time) if t.state.name == "COMPLETED" else None,
                         st[0][1] if st else None, t.state.name == "CANCELLED",
                         t.state.name == "COMPLETED" and us(t.completion_time) > us(t.deadline))
                got = (r.release_time, r.deadline, r.completion_time, r.start_time if r.was_placed else None, r.cancelled, r.missed_deadline)
                if truth != got:
                    bad("reader_task_mismatch", f"{key}: reader {got} truth {truth}")
        for gname, (complete, cancelled, deadline, comp, n) in truth_graph.items():
            r = simr.task_graphs.get(gname)
            if r is None:
                if gname in g_rel:
                    bad("reader_graph_missing", f"{gname} not reconstructed")
                continue
            if (r.was_completed, r.completion_at, r.deadline, r.num_tasks) != (complete, comp, deadline, n):
                bad("reader_graph_mismatch", f"{gname}: reader completed={r.was_completed} at {r.completion_at} deadline {r.deadline} n={r.num_tasks}; truth {truth_graph[gname]}")
            elif bool(r.cancelled) != bool(cancelled):
                bad("reader_graph_cancelled_flag", f"{gname}: reader cancelled={r.cancelled}, truth: sinks cancelled={cancelled}, complete={complete}")
        if len(simr.scheduler_invocations) != len(rec.mon.sched):
            bad("reader_scheduler_invocations", f"{len(simr.scheduler_invocations)} vs {len(rec.mon.sched)}")
    finally:
        for f_ in (path, path[:-4] + "_companion.csv"):
            try:
                os.remove(f_)
            except OSError:
                pass
    rec._c08_classes = {"cancel": n_cancel > 0, "miss": n_miss > 0, "finished_graph": n_fin_graph > 0, "read_after_another_trace": len(rec.rows) % 2 == 0}
    # de-duplicate by signature
    out, sigs = [], set()
    for v in V:
        if v.sig not in sigs:
            sigs.add(v.sig)
            out.append(v)
    return out[:8]


def spec_release_kind(spec, gname):
    base = gname.split("@")[0]
    for g in spec["graphs"]:
        if g["name"] == base:
            return g["release"]["kind"]
    return None


def nontrivial_c08(rec):
    c = getattr(rec, "_c08_classes", {})
    return any(c.values())
