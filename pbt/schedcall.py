"""Direct policy invocations on reachable states: case strategies, invocation with capture, shared oracles."""
import itertools

from hypothesis import strategies as st

from pbt import build, env, solvercap, specs, statebuilder

env.setup()
from utils import EventTime  # noqa: E402
from workload import BatchStrategy, Placement, Resource, TaskState  # noqa: E402

US = EventTime.Unit.US
us = statebuilder.us

ALL_POLICIES = ["EDF", "FIFO", "LSF", "ILP", "TetriSched_Gurobi", "TetriSched_CPLEX", "Z3", "Clockwork"]
GREEDY = ("EDF", "FIFO", "LSF")
PLANNERS = ("ILP", "TetriSched_Gurobi", "TetriSched_CPLEX")


# ----------------------------------------------------------------------------- strategies
@st.composite
def small_graph(draw, name, n_prof, max_jobs, allow_cond=False):
    shape = draw(st.sampled_from(["single", "single", "chain", "fork", "join", "diamond", "dag"] + (["cond"] if allow_cond else [])))
    if shape == "cond" and max_jobs >= 4:
        jobs = [
            {"children": [1, 2], "conditional": True},
            {"children": [3], "probability": 0.5},
            {"children": [3], "probability": 0.5},
            {"children": [], "terminal": True},
        ]
    elif shape == "single" or max_jobs == 1:
        jobs = [{"children": []}]
    elif shape == "chain":
        n = draw(st.integers(2, max(2, min(4, max_jobs))))
        jobs = [{"children": [i + 1] if i + 1 < n else []} for i in range(n)]
    elif shape == "fork":
        n = draw(st.integers(3, max(3, min(4, max_jobs)))) if max_jobs >= 3 else 2
        jobs = [{"children": list(range(1, n))}] + [{"children": []} for _ in range(n - 1)]
    elif shape == "join":
        n = draw(st.integers(3, max(3, min(4, max_jobs)))) if max_jobs >= 3 else 2
        jobs = [{"children": [n - 1]} for _ in range(n - 1)] + [{"children": []}]
    elif shape == "diamond" and max_jobs >= 4:
        jobs = [{"children": [1, 2]}, {"children": [3]}, {"children": [3]}, {"children": []}]
    else:
        n = draw(st.integers(2, max(2, min(4, max_jobs))))
        jobs = [{"children": []} for _ in range(n)]
        for i in range(n):
            for j in range(i + 1, n):
                if draw(st.booleans()):
                    jobs[i]["children"].append(j)
    for i, j in enumerate(jobs):
        j["name"] = f"{name}_j{i}"
        j["profile"] = draw(st.integers(0, n_prof - 1))
        j.setdefault("conditional", False)
        j.setdefault("terminal", False)
        j.setdefault("probability", 1.0)
    return jobs


@st.composite
def policy_spec(draw, name, tight=False, batching=None):
    if name in ("EDF", "FIFO"):
        return {"name": name, "enforce_deadlines": draw(st.booleans())}
    if name == "LSF":
        return {"name": name}
    if name == "ILP":
        goal = draw(st.sampled_from(["max_goodput", "max_goodput", "max_slack"]))
        return {
            "name": name, "goal": goal, "enforce_deadlines": True if goal == "max_goodput" else draw(st.booleans()),
            "retract_schedules": draw(st.booleans()), "release_taskgraphs": draw(st.booleans()), "lookahead": draw(st.sampled_from([0, 0, 5, 30])),
            "batching": draw(st.sampled_from([False, False, False, True])) if batching is None else batching,
        }
    if name == "TetriSched_Gurobi":
        return {
            "name": name, "goal": "max_goodput", "enforce_deadlines": draw(st.booleans()), "retract_schedules": draw(st.booleans()),
            "release_taskgraphs": draw(st.booleans()), "lookahead": draw(st.sampled_from([0, 0, 5, 30])),
            "time_discretization": draw(st.sampled_from([1, 1, 2, 3])), "plan_ahead": draw(st.sampled_from([-1, 12, 20, 4, 6])),  # short windows: the last slot is contended
        }
    if name == "TetriSched_CPLEX":
        return {
            "name": name, "goal": "max_goodput", "enforce_deadlines": draw(st.booleans()), "retract_schedules": draw(st.booleans()),
            "lookahead": draw(st.sampled_from([0, 0, 5])), "time_discretization": draw(st.sampled_from([1, 1, 2, 3])),
            "plan_ahead": draw(st.sampled_from([-1, 12, 20, 4, 6])), "batching": draw(st.sampled_from([False, False, False, True])) if batching is None else batching,
        }
    if name == "Z3":
        return {"name": name, "goal": "max_slack", "enforce_deadlines": draw(st.booleans()), "retract_schedules": draw(st.booleans()),
                "release_taskgraphs": draw(st.booleans()), "lookahead": draw(st.sampled_from([0, 0, 5, 30]))}
    if name == "Clockwork":
        return {"name": name, "goal": draw(st.sampled_from(["clockwork", "least_slack"]))}
    raise ValueError(name)


@st.composite
def call_cases(draw, policies=ALL_POLICIES, max_tasks=6, max_pools=2, max_workers=2, tight_deadlines=False, running=True, scheduled=True,
               max_runtime=6, max_strategies=2, allow_cond=False, batching=None, flat=False, plan_ahead_children=False):
    """`flat`: several independent released single-task graphs and no history - many tasks compete in one invocation."""
    pname = draw(st.sampled_from(list(policies)))
    cluster = draw(specs.clusters(max_pools=max_pools, max_workers=max_workers))
    n_prof = draw(st.integers(1, 3))
    profiles = [draw(specs.profile_for(cluster, f"pr{i}", feasible=draw(st.integers(0, 5)) > 0, max_strategies=max_strategies, max_runtime=max_runtime,
                                       contention=draw(st.booleans()))) for i in range(n_prof)]
    now = draw(st.integers(3, 20))
    budget = draw(st.integers(2 if flat else 1, max_tasks))
    graphs = []
    used = 0
    while used < budget and len(graphs) < (max_tasks if flat else 4):
        jobs = draw(small_graph(f"G{len(graphs)}", n_prof, 1 if flat else budget - used, allow_cond=allow_cond))
        used += len(jobs)
        if tight_deadlines:
            dl = now + draw(st.integers(-3, 14))
        else:
            dl = now + draw(st.one_of(st.integers(-2, 40), st.sampled_from([25, 40, 60])))
        graphs.append({"name": f"G{len(graphs)}", "jobs": jobs, "release_time": draw(st.sampled_from([0, 0, now, now - 1, max(0, now - 2)])), "deadline": dl})
    if flat:
        running = scheduled = False
    all_jobs = [(g["name"], j["name"]) for g in graphs for j in g["jobs"]]
    # history: completed prefix, running tasks, scheduled-for-later tasks
    completed, run, sched = [], [], []
    for g in graphs:
        names = [j["name"] for j in g["jobs"]]
        parents = {n: [] for n in names}
        for j in g["jobs"]:
            for c in j["children"]:
                parents[names[c]].append(j["name"])
        done = set()
        for j in g["jobs"]:  # insertion order is topological for the shapes above
            if not flat and all(p in done for p in parents[j["name"]]) and draw(st.integers(0, 3)) == 0:
                done.add(j["name"])
                completed.append([g["name"], j["name"]])
        for j in g["jobs"]:
            if j["name"] in done or not all(p in done for p in parents[j["name"]]):
                continue
            r = draw(st.integers(0, 3))
            if r == 0 and running:
                run.append({"graph": g["name"], "job": j["name"], "pool": draw(st.integers(0, 2)), "worker": draw(st.integers(0, 2)),
                            "strategy": draw(st.integers(0, 2)), "elapsed": draw(st.integers(0, 4)), "overrun": draw(st.sampled_from([0, 0, 1, 2, 3, 4]))})
            elif r == 1 and scheduled:
                sched.append({"graph": g["name"], "job": j["name"], "pool": draw(st.integers(0, 2)), "worker": draw(st.integers(0, 2)),
                              "strategy": draw(st.integers(0, 2)), "at": draw(st.integers(0, 6))})
    if plan_ahead_children and scheduled:
        # a child planned ahead by an earlier invocation: SCHEDULED (still VIRTUAL before) after a parent that is itself
        # RUNNING or SCHEDULED; its planned start respects the parents' worst-case ends
        for g in graphs:
            names = [j["name"] for j in g["jobs"]]
            parents = {n: [] for n in names}
            for j in g["jobs"]:
                for c in j["children"]:
                    parents[names[c]].append(j["name"])
            placed = {r["job"]: max_runtime for r in run if r["graph"] == g["name"]}
            placed.update({r["job"]: r["at"] + max_runtime for r in sched if r["graph"] == g["name"]})
            done = {j for gg, j in completed if gg == g["name"]}
            for j in g["jobs"]:
                n = j["name"]
                ps = parents[n]
                if n in placed or n in done or not ps or not all(p in done or p in placed for p in ps) or all(p in done for p in ps):
                    continue
                if draw(st.integers(0, 2)) == 0:
                    at = max(placed[p] for p in ps if p in placed) + 1 + draw(st.integers(0, 3))
                    sched.append({"graph": g["name"], "job": n, "pool": draw(st.integers(0, 2)), "worker": draw(st.integers(0, 2)),
                                  "strategy": draw(st.integers(0, 2)), "at": at})
                    placed[n] = at + max_runtime
    retracted = []
    if plan_ahead_children:
        # an earlier plan that was withdrawn (Task.unschedule: a skipped or retracted placement): the task is RELEASED / VIRTUAL
        # again and nothing of the withdrawn plan may count any more
        busy = {(r["graph"], r["job"]) for r in run + sched} | {tuple(c) for c in completed}
        for g in graphs:
            for j in g["jobs"]:
                if (g["name"], j["name"]) not in busy and draw(st.integers(0, 3)) == 0:
                    retracted.append({"graph": g["name"], "job": j["name"], "strategy": draw(st.integers(0, 2))})
    pol = draw(policy_spec(pname, batching=batching))
    if pol.get("batching"):
        for p in profiles:
            for s_ in p["strategies"]:
                s_["batch"] = draw(st.sampled_from([1, 1, 2]))
    if pname == "Clockwork":
        # models need a loading strategy; requests of one model may be batched
        for p in profiles:
            p["loading"] = [{"runtime": 0, "resources": {}, "batch": 1}]
            for s_ in p["strategies"]:
                s_["batch"] = draw(st.sampled_from([1, 1, 2]))
    return {"seed": draw(st.integers(0, 9999)), "now": now, "cluster": cluster, "profiles": profiles, "graphs": graphs, "completed": completed,
            "running": run, "scheduled": sched, "retracted": retracted, "policy": pol}


# ----------------------------------------------------------------------------- invocation
def snapshot(state):
    snap = {}
    for pool in state["worker_pools"].worker_pools:
        snap[("pool", pool.id)] = sorted(t.unique_name for t in pool.get_placed_tasks())
        for w in pool.workers:
            for r, _q in w.resources.resources:
                rr = Resource(name=r.name, _id="any")
                snap[("w", w.id, r.name)] = (w.resources.get_available_quantity(rr), w.resources.get_allocated_quantity(rr))
            snap[("wt", w.id)] = sorted(t.unique_name for t in w.get_placed_tasks())
            snap[("wp", w.id)] = (sorted(p.name for p in w.get_available_profiles()), sorted(p.name for p in w.get_pending_profiles()))
    for key, t in state["tasks"].items():
        pl = t.current_placement
        snap[("t", key)] = (
            t.state.name, us(t.release_time), us(t.deadline), us(t.start_time), None if t._remaining_time is None else us(t._remaining_time),
            None if pl is None else (pl.worker_pool_id, pl.worker_id, us(pl.placement_time)), t.worker_pool_id, t.probability,
            None if t.scheduling_time is None else us(t.scheduling_time),
        )
    return snap


def invoke(case, prepare=None):
    """Build the state, invoke the policy once; returns a record dict."""
    solvercap.install()
    solvercap.reset()
    state = statebuilder.build_state(case)
    flags = state["flags"]
    pol = case["policy"]
    policy = build.build_policy(pol, build.make_flags(
        random_seed=case["seed"], release_taskgraphs=pol.get("release_taskgraphs", False), retract_schedules=pol.get("retract_schedules", False),
        enforce_deadlines=pol.get("enforce_deadlines", False), scheduler=pol["name"]))
    wl = state["workload"]
    offers = []
    orig = wl.get_schedulable_tasks

    def gst(*a, **kw):
        r = orig(*a, **kw)
        offers.append([(t, t.state.name) for t in r])
        return r

    wl.get_schedulable_tasks = gst
    if prepare:
        prepare(policy, state)
    before = snapshot(state)
    rec = {"state": state, "policy": policy, "error": None, "placements": None, "offers": offers, "discard": None}
    try:
        with solvercap.quiet():
            placements = policy.schedule(state["now"], wl, state["worker_pools"])
        rec["placements"] = placements
    except Exception as e:
        if solvercap.is_licence_error(e):
            rec["discard"] = "solver_licence_limit"
        else:
            import traceback

            tb = traceback.extract_tb(e.__traceback__)
            where = next((f"{f.filename.split('/')[-1]}:{f.name}" for f in reversed(tb) if "/verif/" not in f.filename and "site-packages" not in f.filename), "?")
            rec["error"] = (type(e).__name__, str(e)[:300], where)
    finally:
        wl.get_schedulable_tasks = orig
    rec["before"] = before
    rec["after"] = snapshot(state)
    rec["models"] = list(solvercap.CAPTURED["models"])
    rec["vars"] = list(solvercap.CAPTURED["vars"])
    return rec


# ----------------------------------------------------------------------------- shared oracle pieces
def demand_of(strategy):
    return statebuilder.demand_of(strategy)


def occupancy_items(rec, decided):
    """Intervals that occupy workers: running tasks, still-valid earlier placements and the new placements.

    Returns list of dicts {task, pool, worker (or None), start, end, demand}."""
    state = rec["state"]
    now = us(state["now"])
    items = []
    decided_names = {p.task.unique_name for p in decided}
    for key, t in state["tasks"].items():
        if t.state == TaskState.RUNNING:
            pl = t.current_placement
            items.append({"task": t.unique_name, "pool": pl.worker_pool_id, "worker": pl.worker_id, "start": now, "end": now + us(t.remaining_time),
                          "demand": demand_of(pl.execution_strategy), "kind": "running"})
        elif t.state == TaskState.SCHEDULED and t.unique_name not in decided_names:
            pl = t.current_placement
            s = max(us(pl.placement_time), now)
            items.append({"task": t.unique_name, "pool": pl.worker_pool_id, "worker": pl.worker_id, "start": s, "end": s + us(pl.execution_strategy.runtime),
                          "demand": demand_of(pl.execution_strategy), "kind": "scheduled"})
    for p in decided:
        if p.placement_type == Placement.PlacementType.PLACE_TASK and p.is_placed() and p.execution_strategy is not None:
            s = us(p.placement_time)
            items.append({"task": p.task.unique_name, "pool": p.worker_pool_id, "worker": p.worker_id, "start": s,
                          "end": s + us(p.execution_strategy.runtime), "demand": demand_of(p.execution_strategy), "kind": "new",
                          "batch": p.execution_strategy.id if isinstance(p.execution_strategy, BatchStrategy) else None})
    return items


def capacity_violation(rec, items):
    """None if some assignment of the pool-level items to workers keeps every worker within capacity at every instant."""
    info = rec["state"]["info"]
    caps = {wid: w["capacity"] for wid, w in info["workers"].items()}
    pool_workers = {pid: p["worker_ids"] for pid, p in info["pools"].items()}
    # collapse batches: members of one BatchStrategy count once
    seen_batches = {}
    flat = []
    for it in items:
        b = it.get("batch")
        if b is not None:
            if b in seen_batches:
                continue
            seen_batches[b] = True
        flat.append(it)
    times = sorted({it["start"] for it in flat})
    free = [it for it in flat if it["worker"] is None]
    fixed = [it for it in flat if it["worker"] is not None]

    def check(assign):
        for t in times:
            use = {}
            for it in fixed:
                if it["start"] <= t < it["end"]:
                    u = use.setdefault(it["worker"], {})
                    for r, q in it["demand"].items():
                        u[r] = u.get(r, 0) + q
            for it, w in zip(free, assign):
                if it["start"] <= t < it["end"]:
                    u = use.setdefault(w, {})
                    for r, q in it["demand"].items():
                        u[r] = u.get(r, 0) + q
            for w, u in use.items():
                for r, q in u.items():
                    if q > caps.get(w, {}).get(r, 0):
                        return f"at t={t} worker {info['workers'].get(w, {}).get('name', w)} needs {q} {r} of {caps.get(w, {}).get(r, 0)}"
        return None

    if not free:
        return check(())
    if any(not pool_workers.get(it["pool"]) for it in free):
        return "placement on a pool without workers"
    # pools are independent; inside a pool a depth-first assignment with pruning.  A search that runs out of budget is
    # inconclusive and never a violation.
    budget = [200000]

    def usage_ok(load, w):
        cap = caps.get(w, {})
        for t in times:
            use = {}
            for it in load:
                if it["start"] <= t < it["end"]:
                    for r, q in it["demand"].items():
                        use[r] = use.get(r, 0) + q
            if any(q > cap.get(r, 0) for r, q in use.items()):
                return False
        return True

    for pid in sorted({it["pool"] for it in free}):
        ws = pool_workers[pid]
        load = {w: [it for it in fixed if it["worker"] == w] for w in ws}
        mine = sorted((it for it in free if it["pool"] == pid), key=lambda it: -sum(it["demand"].values()))

        def dfs(k):
            if k == len(mine):
                return True
            budget[0] -= 1
            if budget[0] < 0:
                return None
            tried = set()
            for w in ws:
                sig = (tuple(sorted(caps.get(w, {}).items())), tuple(id(x) for x in load[w]))
                if sig in tried:
                    continue  # an identical empty/equal worker was already tried
                tried.add(sig)
                load[w].append(mine[k])
                if usage_ok(load[w], w):
                    r = dfs(k + 1)
                    if r is not False:
                        load[w].pop()
                        return r
                load[w].pop()
            return False

        r = dfs(0)
        if r is None:
            rec.setdefault("inconclusive", []).append("capacity_assignment_search_budget")
            return None
        if r is False:
            # report with the greedy first-fit picture for readability
            return check(tuple(pool_workers[it["pool"]][0] for it in free)) or f"no assignment of the placements on pool {pid} to its workers respects their capacity"
    return None
