"""Child process of C09's `release_policies_two_processes`: seeds the global generator, builds release policies without an
explicit rng_seed through the public API and prints the release times they produce."""
import json
import random
import sys

sys.path.insert(0, sys.argv[1])
import utils  # noqa: E402

_l = utils.setup_logging


def _quiet(*a, **k):
    import logging

    lg = logging.getLogger("quiet")
    lg.setLevel(logging.CRITICAL + 10)
    return lg


utils.setup_logging = _quiet
from utils import EventTime  # noqa: E402
from workload import JobGraph  # noqa: E402

case = json.loads(sys.argv[2])
random.seed(case["seed"])
US = EventTime.Unit.US
RP = JobGraph.ReleasePolicy
out = []
for p in case["policies"]:
    k = p["kind"]
    start = EventTime(p["start"], US)
    if k == "poisson":
        pol = RP.poisson(rate=p["rate"], num_invocations=p["n"], start=start)
    elif k == "gamma":
        pol = RP.gamma(rate=p["rate"], coefficient=p["coefficient"], num_invocations=p["n"], start=start)
    else:
        pol = RP.fixed_gamma(variable_arrival_rate=p["rate"], base_arrival_rate=p["base_rate"], coefficient=p["coefficient"], num_invocations=p["n"], start=start)
    # one policy object serves several JobGraphs (the loader's --replication_factor shares it): every call counts
    out.append([[t.to(US).time for t in pol.get_release_times(completion_time=EventTime(10**9, US))] for _ in range(p.get("calls", 1))])
print(json.dumps(out))
