"""Builds *reachable* scheduler inputs through the public API exactly as the simulator would:
release -> schedule(placement) -> pool.place_task -> start -> step.  Used by C10/C11/C12/C13/C14."""
from pbt import build, env

env.setup()
from utils import EventTime  # noqa: E402
from workload import Placement, TaskState, Workload  # noqa: E402

US = EventTime.Unit.US


def T(x):
    return EventTime(int(x), US)


def us(t):
    return t.time * int(t.unit.value)


def build_state(case):
    """case:
      seed, now, cluster, profiles,
      graphs: [ {name, jobs, release_time, deadline} ]     (one invocation each, absolute deadline)
      running: [ {graph, job, pool, worker, strategy, started} ]   tasks already running at `now`
      scheduled: [ {graph, job, pool, worker, strategy, at} ]     tasks placed for the future
      completed: [ [graph, job], ... ]  completed tasks (parents first)
    Returns dict(world pieces..., tasks by (graph, job)).
    """
    env.reset_case(case["seed"])
    flags = build.make_flags(random_seed=case["seed"], **case.get("flag_overrides", {}))
    worker_pools, info = build.build_cluster(case["cluster"])
    profiles = [build.build_profile(p) for p in case["profiles"]]
    now = case["now"]
    job_graphs = {}
    for g in case["graphs"]:
        gspec = {"name": g["name"], "jobs": g["jobs"],
                 "release": {"kind": "fixed", "period": 0, "n": 1, "start": g["release_time"]}, "deadline_variance": [0, 0]}
        job_graphs[g["name"]] = build.build_job_graph(gspec, profiles)
    workload = Workload.from_job_graphs(job_graphs, _flags=flags)
    workload.populate_task_graphs(completion_time=T(10**9))
    tasks = {}
    for g in case["graphs"]:
        tg = workload.get_task_graph(f"{g['name']}@0")
        for t in tg.get_nodes():
            tasks[(g["name"], t.name)] = t
            if g.get("deadline_ms") is not None:
                # the same instant family in another unit: time values of mixed units must order as instants (C16)
                t.update_deadline(EventTime(g["deadline_ms"], EventTime.Unit.MS))
            elif g.get("deadline") is not None:
                t.update_deadline(T(g["deadline"]))
        for j in g["jobs"]:
            if j.get("deadline") is not None:
                tasks[(g["name"], j["name"])].update_deadline(T(j["deadline"]))
    pools = list(worker_pools.worker_pools)

    def pool_worker(pi, wi):
        p = pools[pi % len(pools)]
        w = p.workers[wi % len(p.workers)]
        return p, w

    def strategy_of(t, si):
        return t.available_execution_strategies[si % len(t.available_execution_strategies)]

    notes = {"skipped": []}
    # completed tasks: run them entirely in the past
    for gname, jname in case.get("completed", []):
        t = tasks[(gname, jname)]
        tg = workload.get_task_graph(t.task_graph)
        if t.state != TaskState.VIRTUAL and t.state != TaskState.RELEASED:
            continue
        if not all(p.is_complete() for p in tg.get_parents(t)):
            notes["skipped"].append(("completed", gname, jname))
            continue
        s = strategy_of(t, 0)
        rt = us(s.runtime)
        start = max(0, now - rt - 1)
        if t.state == TaskState.VIRTUAL:
            t.release(T(min(start, us(t.release_time)) if not t.release_time.is_invalid() else start))
        t.schedule(T(start), Placement.create_task_placement(task=t, placement_time=T(start), worker_pool_id=pools[0].id, execution_strategy=s))
        t.start(T(start))
        t.update_remaining_time(T(0))
        t.finish(T(start + rt))
        rel, _c = tg.notify_task_completion(t, T(start + rt))
    # release every task whose release time has come and whose parents are complete
    for (gname, jname), t in tasks.items():
        tg = workload.get_task_graph(t.task_graph)
        if t.state == TaskState.VIRTUAL and all(p.is_complete() for p in tg.get_parents(t)):
            rt = us(t.release_time) if not t.release_time.is_invalid() else now
            if rt <= now:
                t.release(T(rt))
    # running tasks
    for r in case.get("running", []):
        t = tasks.get((r["graph"], r["job"]))
        if t is None or t.state != TaskState.RELEASED:
            notes["skipped"].append(("running", r["graph"], r["job"]))
            continue
        p, w = pool_worker(r["pool"], r["worker"])
        s = strategy_of(t, r["strategy"])
        if not w.can_accomodate_strategy(s):
            notes["skipped"].append(("running_nofit", r["graph"], r["job"]))
            continue
        rt = us(s.runtime)
        elapsed = min(r.get("elapsed", 0), max(0, rt - 1))
        start = max(us(t.release_time), now - elapsed)
        pl = Placement.create_task_placement(task=t, placement_time=T(start), worker_pool_id=p.id, worker_id=w.id if r.get("with_worker_id", True) else None, execution_strategy=s)
        t.schedule(T(start), pl)
        ok = p.place_task(t, execution_strategy=s, worker_id=w.id)
        assert ok
        t.start(T(start))
        if r.get("overrun") and now - start > 0:
            # what Task.start(time, variance=v) does when runtime variance is configured: the task runs longer than the
            # runtime of its strategy.  Capped by the time already spent, so that what is left never exceeds the strategy's
            # runtime (a planner can only assume the strategy's runtime from now on; a larger overrun is unknowable).
            t.update_remaining_time(t.remaining_time + T(min(r["overrun"], now - start)))
        if now - start > 0:
            t.step(T(start), T(now - start))
    # scheduled-for-later tasks
    for r in case.get("scheduled", []):
        t = tasks.get((r["graph"], r["job"]))
        if t is None or t.state not in (TaskState.RELEASED, TaskState.VIRTUAL):
            notes["skipped"].append(("scheduled", r["graph"], r["job"]))
            continue
        p, w = pool_worker(r["pool"], r["worker"])
        s = strategy_of(t, r["strategy"])
        from copy import deepcopy as _dc

        if not _dc(w).can_accomodate_strategy(s):
            notes["skipped"].append(("scheduled_nofit", r["graph"], r["job"]))
            continue
        at = now + r.get("at", 1)
        pl = Placement.create_task_placement(task=t, placement_time=T(at), worker_pool_id=p.id, worker_id=w.id if r.get("with_worker_id", True) else None, execution_strategy=s)
        t.schedule(T(now), pl)
    # plans that were withdrawn again: scheduled with some strategy, then unscheduled (back to RELEASED / VIRTUAL)
    for r in case.get("retracted", []):
        t = tasks.get((r["graph"], r["job"]))
        if t is None or t.state not in (TaskState.RELEASED, TaskState.VIRTUAL):
            continue
        s = strategy_of(t, r["strategy"])
        p = list(worker_pools.worker_pools)[0]
        t.schedule(T(now), Placement.create_task_placement(task=t, placement_time=T(now + 1), worker_pool_id=p.id, execution_strategy=s))
        t.unschedule(T(now))
        notes.setdefault("retracted", []).append((r["graph"], r["job"]))
    return {"flags": flags, "worker_pools": worker_pools, "info": info, "workload": workload, "tasks": tasks, "now": T(now), "notes": notes,
            "profiles": profiles}


def demand_of(strategy):
    d = {}
    for r, q in strategy.resources._resource_vector.items():
        d[r.name] = d.get(r.name, 0) + q
    return d


def worker_free(worker):
    """Free quantity per type as told by the live worker (public getter)."""
    from workload import Resource

    out = {}
    for r, _q in worker.resources.resources:
        out[r.name] = worker.resources.get_available_quantity(Resource(name=r.name, _id="any"))
    return out
