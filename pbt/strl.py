"""STRL (C20): tree cases -> driver input, model reconstruction, reference semantics."""
import itertools
import json
import os
import subprocess

from pbt import env

_BIN = None
LEAF_KINDS = ("CHOOSE", "WINDOWED", "MALLEABLE")


def driver_binary():
    global _BIN
    if _BIN is None:
        out = subprocess.run(["sh", os.path.join(env.VERIF_DIR, "strl", "build.sh")], capture_output=True, text=True,
                             env=dict(os.environ, VERIF_REPO=env.REPO))
        if out.returncode != 0 or not out.stdout.strip():
            raise RuntimeError(f"STRL driver build failed: {out.stderr[-2000:]}")
        _BIN = out.stdout.strip().splitlines()[-1]
    return _BIN


def to_text(case, values=None):
    lines = [f"NOW {case['now']}", f"GRAN {case['gran']}"]
    for p in case.get("passes", []):
        lines.append(f"PASS {p}")
    for p in case["partitions"]:
        lines.append(f"PARTITION {p['id']} p{p['id']} {p['q']}")
    for i, n in enumerate(case["nodes"]):
        k = n["kind"]
        if k == "CHOOSE":
            lines.append(f"NODE {i} CHOOSE {n['name']} s{i} {len(n['parts'])} {' '.join(map(str, n['parts']))} {n['machines']} {n['start']} {n['duration']} {n['utility']}")
        elif k == "ALLOCATION":
            flat = " ".join(f"{pid} {q}" for pid, q in n["alloc"])
            lines.append(f"NODE {i} ALLOCATION {n['name']} {len(n['alloc'])} {flat} {n['start']} {n['duration']}")
        elif k == "WINDOWED":
            lines.append(f"NODE {i} WINDOWED {n['name']} {len(n['parts'])} {' '.join(map(str, n['parts']))} {n['machines']} {n['start']} {n['duration']} {n['end']} {n['wgran']} {n['utility']}")
        elif k == "MALLEABLE":
            lines.append(f"NODE {i} MALLEABLE {n['name']} {len(n['parts'])} {' '.join(map(str, n['parts']))} {n['slots']} {n['start']} {n['end']} {n['wgran']} {n['utility']}")
        elif k == "SCALE":
            lines.append(f"NODE {i} SCALE {n['name']} {n['factor']} {1 if n.get('disregard') else 0}")
        else:
            lines.append(f"NODE {i} {k} {n['name']}")
    for i, n in enumerate(case["nodes"]):
        for c in n.get("children", []):
            lines.append(f"EDGE {i} {c}")
    lines.append(f"ROOT {case['root']}")
    if values is not None:
        # keyed by the rank of the variable id: ids keep growing while one driver process serves many cases
        lines.append(f"VALUES {len(values)}")
        for rank, vid in enumerate(sorted(values)):
            lines.append(f"{rank} {values[vid]}")
    lines.append("END")
    return "\n".join(lines) + "\n"


_PROC = None


def _proc():
    """One driver process per worker process, serving END-terminated cases until it is closed."""
    global _PROC
    if _PROC is None or _PROC.poll() is not None:
        os.makedirs(env.WORK_DIR, exist_ok=True)  # the library drops libtetrisched_performance.csv into its cwd
        _PROC = subprocess.Popen([driver_binary()], stdin=subprocess.PIPE, stdout=subprocess.PIPE, stderr=subprocess.DEVNULL, text=True, bufsize=1, cwd=env.WORK_DIR)
    return _PROC


def _kill():
    global _PROC
    if _PROC is not None:
        try:
            _PROC.kill()
            _PROC.wait(timeout=5)
        except Exception:
            pass
    _PROC = None


def run_driver(case, values=None):
    import select

    text = to_text(case, values)
    for attempt in (0, 1):
        p = _proc()
        try:
            p.stdin.write(text)
            p.stdin.flush()
            ready, _, _ = select.select([p.stdout], [], [], 60)
            if not ready:
                _kill()
                return {"error": "driver timeout (60 s)"}
            line = p.stdout.readline()
        except (BrokenPipeError, OSError):
            _kill()
            continue
        if not line:
            rc = p.poll()
            _kill()
            if attempt == 0 and rc is None:
                continue
            return {"error": f"driver exited ({rc}) without an answer"}
        try:
            return json.loads(line)
        except Exception as e:  # pragma: no cover
            _kill()
            return {"error": f"unparsable driver output: {e}: {line[-300:]}"}
    return {"error": "driver could not be started"}


# ----------------------------------------------------------------------------- the model, as Gurobi would see it
def build_gurobi(dump):
    """Translate the dumped model exactly as GurobiSolver.cpp does (missing lower bound -> 0, missing upper -> inf)."""
    import gurobipy as gp
    from gurobipy import GRB

    m = gp.Model("strl")
    m.Params.OutputFlag = 0
    m.Params.Threads = 1
    vs = {}
    for v in dump["vars"]:
        lb = 0 if v["lb"] is None else v["lb"]
        ub = GRB.INFINITY if v["ub"] is None else v["ub"]
        vt = {0: GRB.CONTINUOUS, 1: GRB.INTEGER, 2: GRB.BINARY}[v["type"]]
        vs[v["id"]] = m.addVar(lb=lb, ub=ub, vtype=vt, name=v["name"])
    for c in dump["constraints"]:
        if not c["active"]:
            continue
        expr = gp.LinExpr()
        for coef, vid in c["terms"]:
            expr.add(vs[vid], coef)
        if c["type"] == 0:
            m.addConstr(expr <= c["rhs"], name=c["name"])
        elif c["type"] == 1:
            m.addConstr(expr == c["rhs"], name=c["name"])
        else:
            m.addConstr(expr >= c["rhs"], name=c["name"])
    obj = gp.LinExpr()
    const = 0.0
    for coef, vid in dump["objective"]["terms"]:
        if vid == -1:
            const += coef
        else:
            obj.add(vs[vid], coef)
    m.setObjective(obj + const, GRB.MAXIMIZE if dump["objective"]["sense"] == 0 else GRB.MINIMIZE)
    return m, vs


# ----------------------------------------------------------------------------- reference semantics
def schedulable(case, n):
    pids = {p["id"] for p in case["partitions"]}
    return [p for p in n["parts"] if p in pids]


def _ceil_to(x, g):
    return g * -(-x // g)


def windowed_starts(case, n):
    """Start slots a WindowedChoose offers: the grid points (multiples of its granularity) from its start up to its last
    allowed start, both rounded up to the grid, whose run still ends within the rounded window.  Empty = no utility."""
    if case["now"] > n["end"] or not schedulable(case, n):
        return []
    g, d = n["wgran"], n["duration"]
    lo, hi, end_ub = _ceil_to(n["start"], g), _ceil_to(n["end"], g), _ceil_to(n["end"] + d, g)
    return [t for t in range(lo, hi + 1, g) if t + d <= end_ub]


def malleable_slots(case, n):
    if case["now"] > n["start"]:
        return None  # no utility
    return list(range(n["start"], n["end"], n["wgran"]))


def leaf_options(case, n):
    """None (unsatisfied) or an allocation {pid: qty} meeting the demand exactly.
    WindowedChoose: (start, allocation).  MalleableChoose: {(pid, slot): qty} summing to the requested resource-time."""
    parts = schedulable(case, n)
    q = {p["id"]: p["q"] for p in case["partitions"]}
    opts = [None]
    if n["kind"] == "WINDOWED":
        ranges = [range(0, min(q[p], n["machines"]) + 1) for p in parts]
        allocs = [{p: c for p, c in zip(parts, combo) if c} for combo in itertools.product(*ranges) if sum(combo) == n["machines"]]
        for t in windowed_starts(case, n):
            for a in allocs:
                opts.append((t, a))
        return opts
    if n["kind"] == "MALLEABLE":
        slots = malleable_slots(case, n)
        if not slots or not parts:
            return opts
        cells = [(p, t) for p in parts for t in slots]
        ranges = [range(0, min(q[p], n["slots"]) + 1) for p, _t in cells]
        for combo in itertools.product(*ranges):
            if sum(combo) == n["slots"]:
                opts.append({c: v for c, v in zip(cells, combo) if v})
        return opts
    if n["start"] < case["now"] or not parts:
        return [None]
    ranges = [range(0, min(q[p], n["machines"]) + 1) for p in parts]
    for combo in itertools.product(*ranges):
        if sum(combo) == n["machines"]:
            opts.append({p: c for p, c in zip(parts, combo) if c})
    return opts


def capacity_ok(case, decisions, resolution=1):
    """Σ usage <= quantity for every partition at every integer instant (true validity, independent of the grid)."""
    q = {p["id"]: p["q"] for p in case["partitions"]}
    use = {}
    for i, n in enumerate(case["nodes"]):
        if n["kind"] == "ALLOCATION":
            for pid, qty in n["alloc"]:
                for t in range(n["start"], n["start"] + n["duration"]):
                    use[(pid, t)] = use.get((pid, t), 0) + qty
        elif n["kind"] == "CHOOSE" and decisions.get(i):
            for pid, qty in decisions[i].items():
                for t in range(n["start"], n["start"] + n["duration"]):
                    use[(pid, t)] = use.get((pid, t), 0) + qty
        elif n["kind"] == "WINDOWED" and decisions.get(i):
            t0, alloc = decisions[i]
            for pid, qty in alloc.items():
                for t in range(t0, t0 + n["duration"]):
                    use[(pid, t)] = use.get((pid, t), 0) + qty
        elif n["kind"] == "MALLEABLE" and decisions.get(i):
            for (pid, t0), qty in decisions[i].items():
                for t in range(t0, t0 + n["wgran"]):
                    use[(pid, t)] = use.get((pid, t), 0) + qty
    for (pid, t), u in use.items():
        if u > q.get(pid, 0):
            return False, (pid, t, u)
    return True, None


def evaluate(case, decisions, malleable_end_shift=False, live=None):
    """Reference semantics: returns (valid, utility, why). `decisions`: leaf index -> None | allocation.
    `live`: when the decisions were read back for these nodes only (those that take part in the lowered expression), the
    structural clauses are judged for these nodes only: a LessThan below a no-utility parent is not part of the expression,
    and the leaves that only it owns were not read back."""
    nodes = case["nodes"]
    now = case["now"]
    memo = {}
    invalid = []
    cur = [None]

    class _Flags(list):
        def append(self, msg):
            if live is None or cur[0] is None or cur[0] in live:
                list.append(self, msg)

    invalid = _Flags()

    def ev(i):
        if i in memo:
            return memo[i]
        n = nodes[i]
        k = n["kind"]
        r = None
        if k == "CHOOSE":
            if n["start"] < now or not schedulable(case, n):
                r = {"nou": True}
            else:
                sat = decisions.get(i) is not None
                r = {"nou": False, "sat": sat, "util": n["utility"] if sat else 0.0, "start": n["start"], "end": n["start"] + n["duration"],
                     "var_ind": True, "var_time": False, "start_var": False, "end_var": False}
        elif k == "WINDOWED":
            if not windowed_starts(case, n):
                r = {"nou": True}
            else:
                d = decisions.get(i)
                sat = d is not None
                r = {"nou": False, "sat": sat, "util": n["utility"] if sat else 0.0, "start": d[0] if sat else None, "end": d[0] + n["duration"] if sat else None,
                     "var_ind": True, "var_time": True}
        elif k == "MALLEABLE":
            if malleable_slots(case, n) is None:
                r = {"nou": True}
            else:
                d = decisions.get(i)
                sat = d is not None
                r = {"nou": False, "sat": sat, "util": n["utility"] if sat else 0.0, "start": min(t for _p, t in d) if sat else None,
                     "end": max(t for _p, t in d) + (0 if malleable_end_shift else n["wgran"]) if sat else None, "var_ind": True, "var_time": True}
        elif k == "ALLOCATION":
            r = {"nou": False, "sat": True, "util": 0.0, "start": n["start"], "end": n["start"] + n["duration"], "var_ind": False, "var_time": False,
                 "start_var": False, "end_var": False}
        elif k == "SCALE":
            c = ev(n["children"][0])
            if c["nou"]:
                r = {"nou": True}
            else:
                r = dict(c)
                r["util"] = (n["factor"] * (1 if c["sat"] else 0)) if n.get("disregard") else c["util"] * n["factor"]
        elif k == "MAX":
            cs = [ev(c) for c in n["children"]]
            ok = [c for c in cs if not c["nou"]]
            if not ok:
                r = {"nou": True, "error": True}
            else:
                sats = [c for c in ok if c["sat"]]
                if len(sats) > 1:
                    cur[0] = i
                    invalid.append(f"MAX {n['name']} has {len(sats)} satisfied children")
                sat = len(sats) == 1
                r = {"nou": False, "sat": sat, "util": sum(c["util"] for c in ok), "start": sats[0]["start"] if sat else None,
                     "end": sats[0]["end"] if sat else None, "var_ind": True, "var_time": True,
                     "first_start": min((c["start"] for c in ok if c.get("start") is not None), default=None)}
        elif k == "MIN":
            cs = [ev(c) for c in n["children"]]
            if any(c["nou"] for c in cs):
                r = {"nou": True}
            else:
                enf = [c for c in cs if c["var_ind"]]
                if enf and len({c["sat"] for c in enf}) > 1:
                    cur[0] = i
                    invalid.append(f"MIN {n['name']} has a mix of satisfied and unsatisfied children")
                sat = all(c["sat"] for c in enf) if enf else True
                starts = [c["start"] for c in cs if c.get("start") is not None and c["sat"]]
                ends = [c["end"] for c in cs if c.get("end") is not None and c["sat"]]
                r = {"nou": False, "sat": sat, "util": sum(c["util"] for c in cs) + (0 if enf else 1.0),
                     "start": min(starts) if starts else None, "end": max(ends) if ends else None, "var_ind": bool(enf), "var_time": True}
        elif k == "LESSTHAN":
            a, b = ev(n["children"][0]), ev(n["children"][1])
            a_end_var = a.get("end_var", a.get("var_time", True))
            b_start_var = b.get("start_var", b.get("var_time", True))
            if a["nou"] or b["nou"]:
                r = {"nou": True}
            elif not a_end_var and not b_start_var:
                # the end of the first and the start of the second child are constants of the tree (a Choose/Allocation, or a
                # LessThan that ends/starts with one): the ordering is decided when the tree is built and the expression is
                # then satisfied whatever its children do (documented in Expression.cpp)
                if a["end"] <= b["start"]:
                    r = {"nou": False, "sat": True, "util": a["util"] + b["util"], "start": a.get("start"), "end": b.get("end"), "var_ind": False, "var_time": False,
                         "start_var": a.get("start_var", a.get("var_time", True)), "end_var": b.get("end_var", b.get("var_time", True))}
                else:
                    r = {"nou": True}
            else:
                enf = [c for c in (a, b) if c["var_ind"]]
                if enf and len({c["sat"] for c in enf}) > 1:
                    cur[0] = i
                    invalid.append(f"LESSTHAN {n['name']} has exactly one satisfied child")
                sat = all(c["sat"] for c in enf) if enf else True
                # ordering is part of the meaning of a *satisfied* LessThan only: when it is not satisfied it contributes
                # nothing and constrains nothing
                if sat and a.get("end") is not None and b.get("start") is not None and a["sat"] and b["sat"] and a["end"] > b["start"]:
                    cur[0] = i
                    invalid.append(f"LESSTHAN {n['name']}: first child ends {a['end']} after second starts {b['start']}")
                a_start_var = a.get("start_var", a.get("var_time", True))
                b_end_var = b.get("end_var", b.get("var_time", True))
                r = {"nou": False, "sat": sat, "util": a["util"] + b["util"], "start": a.get("start") if (a["sat"] or not a_start_var) else None,
                     "end": b.get("end") if (b["sat"] or not b_end_var) else None, "var_ind": True, "var_time": True,
                     "start_var": a_start_var, "end_var": b_end_var}
        elif k == "OBJECTIVE":
            cs = [ev(c) for c in n["children"]]
            r = {"nou": False, "sat": True, "util": sum(c["util"] for c in cs if not c["nou"]), "var_ind": False, "var_time": False}
        memo[i] = r
        return r

    root = ev(case["root"])
    # every node of the tree is lowered (even below a no-utility parent): evaluate them all for structural validity
    for i in range(len(nodes)):
        ev(i)
    ok, why = capacity_ok(case, decisions)
    cur[0] = None
    if not ok:
        invalid.append(f"capacity exceeded {why}")
    return (not invalid), root["util"], invalid


def brute_force_optimum(case, limit=40000):
    leaves = [i for i, n in enumerate(case["nodes"]) if n["kind"] in LEAF_KINDS]
    opts = [leaf_options(case, case["nodes"][i]) for i in leaves]
    total = 1
    for o in opts:
        total *= len(o)
    if total > limit:
        return None
    best = None
    best_dec = None
    for combo in itertools.product(*opts):
        dec = {i: c for i, c in zip(leaves, combo)}
        valid, util, _ = evaluate(case, dec)
        if valid and (best is None or util > best + 1e-9):
            best, best_dec = util, dec
    return best, best_dec, total
