"""STRL (C20): tree cases -> driver input, model reconstruction, reference semantics."""
import itertools
import json
import os
import subprocess

from pbt import env

_BIN = None


def driver_binary():
    global _BIN
    if _BIN is None:
        out = subprocess.run(["sh", os.path.join(env.VERIF_DIR, "strl", "build.sh")], capture_output=True, text=True,
                             env=dict(os.environ, VERIF_REPO=env.REPO))
        if out.returncode != 0 or not out.stdout.strip():
            raise RuntimeError(f"STRL driver build failed: {out.stderr[-2000:]}")
        _BIN = out.stdout.strip().splitlines()[-1]
    return _BIN


def to_text(case, values=None):
    lines = [f"NOW {case['now']}", f"GRAN {case['gran']}"]
    for p in case.get("passes", []):
        lines.append(f"PASS {p}")
    for p in case["partitions"]:
        lines.append(f"PARTITION {p['id']} p{p['id']} {p['q']}")
    for i, n in enumerate(case["nodes"]):
        k = n["kind"]
        if k == "CHOOSE":
            lines.append(f"NODE {i} CHOOSE {n['name']} s{i} {len(n['parts'])} {' '.join(map(str, n['parts']))} {n['machines']} {n['start']} {n['duration']} {n['utility']}")
        elif k == "ALLOCATION":
            flat = " ".join(f"{pid} {q}" for pid, q in n["alloc"])
            lines.append(f"NODE {i} ALLOCATION {n['name']} {len(n['alloc'])} {flat} {n['start']} {n['duration']}")
        elif k == "SCALE":
            lines.append(f"NODE {i} SCALE {n['name']} {n['factor']} {1 if n.get('disregard') else 0}")
        else:
            lines.append(f"NODE {i} {k} {n['name']}")
    for i, n in enumerate(case["nodes"]):
        for c in n.get("children", []):
            lines.append(f"EDGE {i} {c}")
    lines.append(f"ROOT {case['root']}")
    if values is not None:
        lines.append(f"VALUES {len(values)}")
        for vid, v in values.items():
            lines.append(f"{vid} {v}")
    lines.append("END")
    return "\n".join(lines) + "\n"


def run_driver(case, values=None):
    p = subprocess.run([driver_binary()], input=to_text(case, values), capture_output=True, text=True, timeout=60)
    if p.returncode != 0 or not p.stdout.strip():
        return {"error": f"driver exit {p.returncode}: {p.stderr[-500:]}"}
    try:
        return json.loads(p.stdout.strip().splitlines()[-1])
    except Exception as e:  # pragma: no cover
        return {"error": f"unparsable driver output: {e}: {p.stdout[-300:]}"}


# ----------------------------------------------------------------------------- the model, as Gurobi would see it
def build_gurobi(dump):
    """Translate the dumped model exactly as GurobiSolver.cpp does (missing lower bound -> 0, missing upper -> inf)."""
    import gurobipy as gp
    from gurobipy import GRB

    m = gp.Model("strl")
    m.Params.OutputFlag = 0
    m.Params.Threads = 1
    vs = {}
    for v in dump["vars"]:
        lb = 0 if v["lb"] is None else v["lb"]
        ub = GRB.INFINITY if v["ub"] is None else v["ub"]
        vt = {0: GRB.CONTINUOUS, 1: GRB.INTEGER, 2: GRB.BINARY}[v["type"]]
        vs[v["id"]] = m.addVar(lb=lb, ub=ub, vtype=vt, name=v["name"])
    for c in dump["constraints"]:
        if not c["active"]:
            continue
        expr = gp.LinExpr()
        for coef, vid in c["terms"]:
            expr.add(vs[vid], coef)
        if c["type"] == 0:
            m.addConstr(expr <= c["rhs"], name=c["name"])
        elif c["type"] == 1:
            m.addConstr(expr == c["rhs"], name=c["name"])
        else:
            m.addConstr(expr >= c["rhs"], name=c["name"])
    obj = gp.LinExpr()
    const = 0.0
    for coef, vid in dump["objective"]["terms"]:
        if vid == -1:
            const += coef
        else:
            obj.add(vs[vid], coef)
    m.setObjective(obj + const, GRB.MAXIMIZE if dump["objective"]["sense"] == 0 else GRB.MINIMIZE)
    return m, vs


# ----------------------------------------------------------------------------- reference semantics
def schedulable(case, n):
    pids = {p["id"] for p in case["partitions"]}
    return [p for p in n["parts"] if p in pids]


def leaf_options(case, n):
    """None (unsatisfied) or an allocation {pid: qty} meeting the demand exactly."""
    parts = schedulable(case, n)
    q = {p["id"]: p["q"] for p in case["partitions"]}
    opts = [None]
    if n["start"] < case["now"] or not parts:
        return [None]
    ranges = [range(0, min(q[p], n["machines"]) + 1) for p in parts]
    for combo in itertools.product(*ranges):
        if sum(combo) == n["machines"]:
            opts.append({p: c for p, c in zip(parts, combo) if c})
    return opts


def capacity_ok(case, decisions, resolution=1):
    """Σ usage <= quantity for every partition at every integer instant (true validity, independent of the grid)."""
    q = {p["id"]: p["q"] for p in case["partitions"]}
    use = {}
    for i, n in enumerate(case["nodes"]):
        if n["kind"] == "ALLOCATION":
            for pid, qty in n["alloc"]:
                for t in range(n["start"], n["start"] + n["duration"]):
                    use[(pid, t)] = use.get((pid, t), 0) + qty
        elif n["kind"] == "CHOOSE" and decisions.get(i):
            for pid, qty in decisions[i].items():
                for t in range(n["start"], n["start"] + n["duration"]):
                    use[(pid, t)] = use.get((pid, t), 0) + qty
    for (pid, t), u in use.items():
        if u > q.get(pid, 0):
            return False, (pid, t, u)
    return True, None


def evaluate(case, decisions):
    """Reference semantics: returns (valid, utility, why). `decisions`: leaf index -> None | allocation."""
    nodes = case["nodes"]
    now = case["now"]
    memo = {}
    invalid = []

    def ev(i):
        if i in memo:
            return memo[i]
        n = nodes[i]
        k = n["kind"]
        r = None
        if k == "CHOOSE":
            if n["start"] < now or not schedulable(case, n):
                r = {"nou": True}
            else:
                sat = decisions.get(i) is not None
                r = {"nou": False, "sat": sat, "util": n["utility"] if sat else 0.0, "start": n["start"], "end": n["start"] + n["duration"],
                     "var_ind": True, "var_time": False}
        elif k == "ALLOCATION":
            r = {"nou": False, "sat": True, "util": 0.0, "start": n["start"], "end": n["start"] + n["duration"], "var_ind": False, "var_time": False}
        elif k == "SCALE":
            c = ev(n["children"][0])
            if c["nou"]:
                r = {"nou": True}
            else:
                r = dict(c)
                r["util"] = (n["factor"] * (1 if c["sat"] else 0)) if n.get("disregard") else c["util"] * n["factor"]
        elif k == "MAX":
            cs = [ev(c) for c in n["children"]]
            ok = [c for c in cs if not c["nou"]]
            if not ok:
                r = {"nou": True, "error": True}
            else:
                sats = [c for c in ok if c["sat"]]
                if len(sats) > 1:
                    invalid.append(f"MAX {n['name']} has {len(sats)} satisfied children")
                sat = len(sats) == 1
                r = {"nou": False, "sat": sat, "util": sum(c["util"] for c in ok), "start": sats[0]["start"] if sat else None,
                     "end": sats[0]["end"] if sat else None, "var_ind": True, "var_time": True,
                     "first_start": min(c["start"] for c in ok)}
        elif k == "MIN":
            cs = [ev(c) for c in n["children"]]
            if any(c["nou"] for c in cs):
                r = {"nou": True}
            else:
                enf = [c for c in cs if c["var_ind"]]
                if enf and len({c["sat"] for c in enf}) > 1:
                    invalid.append(f"MIN {n['name']} has a mix of satisfied and unsatisfied children")
                sat = all(c["sat"] for c in enf) if enf else True
                starts = [c["start"] for c in cs if c.get("start") is not None and c["sat"]]
                ends = [c["end"] for c in cs if c.get("end") is not None and c["sat"]]
                r = {"nou": False, "sat": sat, "util": sum(c["util"] for c in cs) + (0 if enf else 1.0),
                     "start": min(starts) if starts else None, "end": max(ends) if ends else None, "var_ind": bool(enf), "var_time": True}
        elif k == "LESSTHAN":
            a, b = ev(n["children"][0]), ev(n["children"][1])
            if a["nou"] or b["nou"]:
                r = {"nou": True}
            elif not a["var_time"] and not b["var_time"]:
                if a["end"] <= b["start"]:
                    r = {"nou": False, "sat": True, "util": a["util"] + b["util"], "start": a["start"], "end": b["end"], "var_ind": False, "var_time": False}
                else:
                    r = {"nou": True}
            else:
                enf = [c for c in (a, b) if c["var_ind"]]
                if enf and len({c["sat"] for c in enf}) > 1:
                    invalid.append(f"LESSTHAN {n['name']} has exactly one satisfied child")
                sat = all(c["sat"] for c in enf) if enf else True
                # ordering is part of the meaning of a *satisfied* LessThan only: when it is not satisfied it contributes
                # nothing and constrains nothing
                if sat and a.get("end") is not None and b.get("start") is not None and a["sat"] and b["sat"] and a["end"] > b["start"]:
                    invalid.append(f"LESSTHAN {n['name']}: first child ends {a['end']} after second starts {b['start']}")
                r = {"nou": False, "sat": sat, "util": a["util"] + b["util"], "start": a["start"] if a["sat"] else None,
                     "end": b["end"] if b["sat"] else None, "var_ind": True, "var_time": True}
        elif k == "OBJECTIVE":
            cs = [ev(c) for c in n["children"]]
            r = {"nou": False, "sat": True, "util": sum(c["util"] for c in cs if not c["nou"]), "var_ind": False, "var_time": False}
        memo[i] = r
        return r

    root = ev(case["root"])
    # every node of the tree is lowered (even below a no-utility parent): evaluate them all for structural validity
    for i in range(len(nodes)):
        ev(i)
    ok, why = capacity_ok(case, decisions)
    if not ok:
        invalid.append(f"capacity exceeded {why}")
    return (not invalid), root["util"], invalid


def brute_force_optimum(case, limit=40000):
    leaves = [i for i, n in enumerate(case["nodes"]) if n["kind"] == "CHOOSE"]
    opts = [leaf_options(case, case["nodes"][i]) for i in leaves]
    total = 1
    for o in opts:
        total *= len(o)
    if total > limit:
        return None
    best = None
    best_dec = None
    for combo in itertools.product(*opts):
        dec = {i: c for i, c in zip(leaves, combo)}
        valid, util, _ = evaluate(case, dec)
        if valid and (best is None or util > best + 1e-9):
            best, best_dec = util, dec
    return best, best_dec, total
