"""spec -> repository objects (through the public constructors only)."""
import sys
import types

from pbt import env

env.setup()
from utils import EventTime  # noqa: E402
from workers import Worker, WorkerPool, WorkerPools  # noqa: E402
from workload import (  # noqa: E402
    BranchPredictionPolicy,
    ExecutionStrategies,
    ExecutionStrategy,
    Job,
    JobGraph,
    Resource,
    Resources,
    Workload,
    WorkProfile,
)

from data import BaseWorkloadLoader  # noqa: E402

US = EventTime.Unit.US


def T(x):
    return EventTime(int(x), US)


# Defaults of every absl flag defined in main.py that the library code reads through `_flags`.
FLAG_DEFAULTS = dict(
    log_dir=None, log_file_name=None, csv_file_name=None, log_level="debug", log_graphs=False,
    loop_timeout=sys.maxsize, random_seed=42, resolve_conditionals_at_submission=False,
    drop_skipped_tasks=False, workload_update_interval=-1, use_end_to_end_deadlines=False,
    use_branch_predicated_deadlines=False, min_deadline=0, min_deadline_variance=0, max_deadline=sys.maxsize,
    max_deadline_variance=20, runtime_variance=0, timestamp_difference=-1, synchronize_sensors=False,
    release_taskgraphs=False, scheduler="EDF", verify_schedule=False, preemption=False, retract_schedules=False,
    scheduler_runtime=0, scheduler_frequency=-1, scheduler_run_at_worker_free=False,
    scheduler_adaptive_discretization=False, finer_discretization_at_prev_solution=False,
    finer_discretization_window=5, scheduler_max_time_discretization=5, scheduler_max_occupancy_threshold=0.8,
    scheduler_delay=0, scheduler_lookahead=0, scheduler_plan_ahead=-1, scheduler_plan_ahead_no_consideration_gap=0,
    scheduler_time_discretization=1, scheduler_policy="worst", branch_prediction_accuracy=0.5,
    enforce_deadlines=False, ilp_goal="max_goodput", clockwork_goal="clockwork", scheduler_time_limit=-1,
    scheduler_log_to_file=False, decompose_deadlines=False, scheduler_log_times=[], scheduler_run_load=False,
    scheduler_enable_batching=False, scheduler_selective_rescheduling=False,
    scheduler_selective_rescheduling_sample_size=5, scheduler_reconsideration_period=0.1, opt_passes=[],
    override_num_invocation=0, override_poisson_arrival_rate=0.0, override_base_arrival_rate=0.0,
    override_gamma_coefficient=0.0, override_arrival_period=0, override_slo=-1, unique_work_profiles=False,
    replication_factor=1,
)


def make_flags(**over):
    d = dict(FLAG_DEFAULTS)
    d.update(over)
    return types.SimpleNamespace(**d)


def build_cluster(cluster_spec):
    """Returns (WorkerPools, info) where info maps worker id -> (pool name, worker name, capacity by type)."""
    pools = []
    info = {"workers": {}, "pools": {}}
    for p in cluster_spec:
        workers = []
        for w in p["workers"]:
            vec = {}
            cap = {}
            for t, q in w["resources"]:
                # `any_first`: the first instance of each type is configured as Resource(name, _id="any") (as the repository's own
                # tests configure their workers); further instances of the type keep generated ids
                any_id = w.get("any_first") and t not in cap
                vec[Resource(name=t, _id="any") if any_id else Resource(name=t)] = q
                cap[t] = cap.get(t, 0) + q
            worker = Worker(name=w["name"], resources=Resources(resource_vector=vec))
            workers.append(worker)
            info["workers"][worker.id] = {"pool": p["name"], "name": w["name"], "capacity": cap, "obj": worker}
        pool = WorkerPool(name=p["name"], workers=workers)
        for w in workers:
            info["workers"][w.id]["pool_id"] = pool.id
        info["pools"][pool.id] = {"name": p["name"], "obj": pool, "worker_ids": [w.id for w in workers]}
        pools.append(pool)
    return WorkerPools(pools), info


def runtime_of(r):
    """Whole milliseconds are written in milliseconds: durations are quantities, not numerals (C16)."""
    return EventTime(r // 1000, EventTime.Unit.MS) if r >= 1000 and r % 1000 == 0 else T(r)


def build_profile(pspec):
    strategies = ExecutionStrategies()
    for s in pspec["strategies"]:
        strategies.add_strategy(
            ExecutionStrategy(
                resources=Resources(resource_vector={Resource(name=t, _id="any"): q for t, q in s["resources"].items()}),
                batch_size=s.get("batch", 1),
                runtime=runtime_of(s["runtime"]),
            )
        )
    loading = ExecutionStrategies()
    for s in pspec.get("loading", []):
        loading.add_strategy(
            ExecutionStrategy(
                resources=Resources(resource_vector={Resource(name=t, _id="any"): q for t, q in s["resources"].items()}),
                batch_size=s.get("batch", 1),
                runtime=T(s["runtime"]),
            )
        )
    return WorkProfile(name=pspec["name"], execution_strategies=strategies, loading_strategies=loading)


def build_release_policy(rel):
    RP = JobGraph.ReleasePolicy
    k = rel["kind"]
    start = T(rel.get("start", 0))
    if k == "fixed":
        return RP.fixed(period=T(rel["period"]), num_invocations=rel["n"], start=start)
    if k == "periodic":
        return RP.periodic(period=T(rel["period"]), start=start)
    if k == "poisson":
        return RP.poisson(rate=rel["rate"], num_invocations=rel["n"], start=start, rng_seed=rel.get("rng_seed"))
    if k == "gamma":
        return RP.gamma(rate=rel["rate"], coefficient=rel["coefficient"], num_invocations=rel["n"], start=start,
                        rng_seed=rel.get("rng_seed"))
    if k == "closed_loop":
        return RP.closed_loop(concurrency=rel["concurrency"], num_invocations=rel["n"], start=start)
    raise ValueError(k)


def build_job_graph(gspec, profiles, shared_profiles=True):
    from copy import deepcopy

    jobs = []
    for j in gspec["jobs"]:
        prof = profiles[j["profile"]]
        jobs.append(
            Job(
                name=j["name"],
                profile=prof,
                conditional=j.get("conditional", False),
                terminal=j.get("terminal", False),
                probability=j.get("probability", 1.0),
                slo=T(j["slo"]) if j.get("slo") is not None else EventTime.invalid(),
            )
        )
    jg = JobGraph(
        name=gspec["name"],
        release_policy=build_release_policy(gspec["release"]),
        deadline_variance=tuple(gspec.get("deadline_variance", (0, 0))),
    )
    for job in jobs:
        jg.add_job(job=job)
    for j, job in zip(gspec["jobs"], jobs):
        for c in j["children"]:
            jg.add_child(job, jobs[c])
    return jg


class OneShotLoader(BaseWorkloadLoader):
    """Hands the whole workload to the simulator at time zero, as data.WorkloadLoader does."""

    def __init__(self, workload):
        self._workload = workload
        self._released = False

    def get_next_workload(self, current_time):
        if self._released:
            return None
        self._released = True
        return self._workload


POLICY_ENUM = {
    "worst": BranchPredictionPolicy.WORST_CASE,
    "best": BranchPredictionPolicy.BEST_CASE,
    "max": BranchPredictionPolicy.MAXIMUM,
    "random": BranchPredictionPolicy.RANDOM,
    "all": BranchPredictionPolicy.ALL,
}


def build_policy(pol, flags):
    """Builds a scheduling policy exactly as main.py does (runtime 0)."""
    import schedulers as S

    name = pol["name"]
    rt = T(pol.get("runtime", 0))
    if name == "EDF":
        return S.EDFScheduler(preemptive=pol.get("preemptive", False), runtime=rt, enforce_deadlines=pol.get("enforce_deadlines", False), _flags=flags)
    if name == "FIFO":
        return S.FIFOScheduler(preemptive=False, runtime=rt, enforce_deadlines=pol.get("enforce_deadlines", False), _flags=flags)
    if name == "LSF":
        return S.LSFScheduler(preemptive=pol.get("preemptive", False), runtime=rt, _flags=flags)
    if name == "Scripted":
        from pbt.scripted import ScriptedPlanner

        return ScriptedPlanner(pol["script"], batching=pol.get("batching", False), lookahead=pol.get("lookahead", 0), retract=pol.get("retract", False), draws=pol.get("draws"), _flags=flags)
    common = dict(
        preemptive=False,
        runtime=rt,
        lookahead=T(pol.get("lookahead", 0)),
        enforce_deadlines=pol.get("enforce_deadlines", False),
        retract_schedules=pol.get("retract_schedules", False),
        _flags=flags,
    )
    if name == "ILP":
        return S.ILPScheduler(
            policy=POLICY_ENUM[pol.get("branch_policy", "worst")],
            branch_prediction_accuracy=0.5,
            release_taskgraphs=pol.get("release_taskgraphs", False),
            goal=pol.get("goal", "max_goodput"),
            batching=pol.get("batching", False),
            time_limit=T(-1) if pol.get("time_limit") is None else EventTime(pol["time_limit"], EventTime.Unit.S),
            log_to_file=False,
            **common,
        )
    if name == "Z3":
        return S.Z3Scheduler(
            policy=POLICY_ENUM[pol.get("branch_policy", "worst")],
            branch_prediction_accuracy=0.5,
            release_taskgraphs=pol.get("release_taskgraphs", False),
            goal=pol.get("goal", "max_slack"),
            **common,
        )
    if name == "TetriSched_Gurobi":
        return S.TetriSchedGurobiScheduler(
            release_taskgraphs=pol.get("release_taskgraphs", False),
            goal=pol.get("goal", "max_goodput"),
            batching=False,
            time_limit=EventTime(pol.get("time_limit", -1), EventTime.Unit.S),
            time_discretization=T(pol.get("time_discretization", 1)),
            plan_ahead=T(pol.get("plan_ahead", -1)),
            log_to_file=False,
            **common,
        )
    if name == "TetriSched_CPLEX":
        return S.TetriSchedCPLEXScheduler(
            goal=pol.get("goal", "max_goodput"),
            batching=pol.get("batching", False),
            time_limit=EventTime(pol.get("time_limit", -1), EventTime.Unit.S),
            time_discretization=T(pol.get("time_discretization", 1)),
            plan_ahead=T(pol.get("plan_ahead", -1)),
            log_to_file=False,
            **common,
        )
    if name == "Clockwork":
        return S.ClockworkScheduler(runtime=rt, goal=pol.get("goal", "clockwork"), _flags=flags)
    raise ValueError(name)


def flags_for(spec):
    f = spec["flags"]
    pol = spec["policy"]
    return make_flags(
        random_seed=spec["seed"],
        loop_timeout=sys.maxsize if f.get("loop_timeout") is None else f["loop_timeout"],
        scheduler_delay=f.get("scheduler_delay", 0),
        scheduler_frequency=f.get("scheduler_frequency", -1),
        scheduler_run_at_worker_free=f.get("run_at_worker_free", False),
        drop_skipped_tasks=f.get("drop_skipped_tasks", False),
        runtime_variance=f.get("runtime_variance", 0),
        resolve_conditionals_at_submission=f.get("resolve_conditionals_at_submission", False),
        release_taskgraphs=pol.get("release_taskgraphs", False),
        retract_schedules=pol.get("retract_schedules", False),
        enforce_deadlines=pol.get("enforce_deadlines", False),
        scheduler=pol["name"],
        scheduler_lookahead=pol.get("lookahead", 0),
        scheduler_enable_batching=pol.get("batching", False),
        scheduler_time_discretization=pol.get("time_discretization", 1),
        scheduler_plan_ahead=pol.get("plan_ahead", -1),
        ilp_goal=pol.get("goal", "max_goodput"),
        verify_schedule=f.get("verify_schedule", False),
    )


def build_world(spec):
    """Returns a dict with worker_pools, info, workload, loader, policy, flags, job_graphs, profiles."""
    flags = flags_for(spec)
    worker_pools, info = build_cluster(spec["cluster"])
    profiles = [build_profile(p) for p in spec["profiles"]]
    job_graphs = {}
    for g in spec["graphs"]:
        job_graphs[g["name"]] = build_job_graph(g, profiles)
    workload = Workload.from_job_graphs(job_graphs, _flags=flags)
    timeout = EventTime(flags.loop_timeout, US)
    workload.populate_task_graphs(completion_time=timeout)
    policy = build_policy(spec["policy"], flags)
    return {
        "flags": flags,
        "worker_pools": worker_pools,
        "info": info,
        "profiles": profiles,
        "job_graphs": job_graphs,
        "workload": workload,
        "loader": OneShotLoader(workload),
        "policy": policy,
        "timeout": timeout,
    }
