"""Common driver: sharding, seeding, collect/shrink, replay files, known findings, evidence.

A property module (`pbt/props/cXX.py`) exposes

    PROPERTY = "C16"
    RULE = "how cases are generated and what makes one non-trivial"
    ASSUMPTIONS = [...]
    CHECKS = [Check(...), ...]

Each `Check` is either *generated* (a Hypothesis strategy producing a JSON-serialisable
case) or *enumerated* (a generator of cases, sharded round-robin).  `execute(case)` runs
the case against the repository and returns a `CaseResult`.  Anything that escapes
`execute` is a harness error (exit 2), never a violation.

Exit status: 0 = held on everything explored (only known findings, if any),
1 = new violation (a line `VIOLATION property=<id> replay=<path>` is printed),
2 = harness error.
"""
from __future__ import annotations

import hashlib
import importlib
import json
import multiprocessing
import os
import re
import sys
import time
import traceback
from dataclasses import dataclass, field
from typing import Any, Callable, Dict, Iterable, List, Optional

from . import env

NPROC = int(os.environ.get("VERIF_NPROC", "16"))
KNOWN_FILE = os.path.join(env.VERIF_DIR, "known_findings.json")


# ----------------------------------------------------------------------------- data
@dataclass
class Violation:
    clause: str  # which clause of the property's oracle failed
    detail: str  # human readable
    sig: str = ""  # signature: clause + root-cause classifier

    def __post_init__(self):
        if not self.sig:
            self.sig = self.clause


@dataclass
class CaseResult:
    violations: List[Violation] = field(default_factory=list)
    nontrivial: bool = False
    classes: List[str] = field(default_factory=list)
    discard: Optional[str] = None  # e.g. "licence": counted, never a violation
    counters: Dict[str, int] = field(default_factory=dict)
    digest: Optional[str] = None  # default: hash of the case


@dataclass
class Check:
    name: str
    execute: Callable[[Any], CaseResult]
    strategy: Optional[Callable[[str], Any]] = None  # tier -> SearchStrategy
    enumerate: Optional[Callable[[str], Iterable[Any]]] = None  # tier -> iterable
    budget: Dict[str, int] = field(default_factory=lambda: {"quick": 200, "thorough": 2000})
    max_procs: int = NPROC
    exhaustive: bool = False
    describe: str = ""
    # Watchdog per case (seconds of wall clock, SIGALRM). A hit is "inconclusive" (discard) unless the check declares
    # that its cases are tiny pure computations (margin >= 10^4 over the normal cost): then it is a non-termination.
    case_timeout: float = 300.0
    timeout_is_violation: bool = False


class HarnessError(Exception):
    pass


# ----------------------------------------------------------------------------- helpers
def canon(case) -> str:
    return json.dumps(case, sort_keys=True, separators=(",", ":"), default=str)


def digest_of(case) -> str:
    return hashlib.sha1(canon(case).encode()).hexdigest()[:16]


def derive_seed(*parts) -> int:
    h = hashlib.sha256("|".join(str(p) for p in parts).encode()).digest()
    return int.from_bytes(h[:8], "big")


def load_known(prop: str):
    if not os.path.exists(KNOWN_FILE):
        return []
    with open(KNOWN_FILE) as f:
        data = json.load(f)
    out = []
    for e in data.get("findings", []):
        if e.get("property") == prop and e.get("status") == "known":
            out.append(e)
    return out


def match_known(known, sig: str):
    for e in known:
        if re.fullmatch(e["signature"], sig):
            return e
    return None


def load_module(prop: str):
    return importlib.import_module(f"pbt.props.{prop.lower()}")


# ----------------------------------------------------------------------------- watchdog
class CaseTimeout(BaseException):
    pass


class _Guarded:
    """A view of a Check whose execute() is protected by the per-case watchdog."""

    def __init__(self, check, execute):
        self._check = check
        self.execute = execute

    def __getattr__(self, name):
        return getattr(self._check, name)


def run_with_watchdog(check, execute, case):
    import signal

    def on_alarm(signum, frame):
        raise CaseTimeout()

    timeout = float(os.environ.get("VERIF_CASE_TIMEOUT", check.case_timeout))
    old = signal.signal(signal.SIGALRM, on_alarm)
    signal.setitimer(signal.ITIMER_REAL, timeout)
    try:
        return execute(case)
    except CaseTimeout:
        res = CaseResult()
        if check.timeout_is_violation:
            res.violations.append(Violation("does_not_terminate", f"no result after {timeout:.0f}s (typical cost: milliseconds); case={canon(case)[:3000]}",
                                            f"{check.name}.does_not_terminate"))
        else:
            res.discard = "case_timeout_inconclusive"
        return res
    finally:
        signal.setitimer(signal.ITIMER_REAL, 0)
        signal.signal(signal.SIGALRM, old)


# ----------------------------------------------------------------------------- worker
def _worker(args):
    prop, check_name, tier, seed, shard, nshards, n_examples, shrink_cap = args
    t0 = time.time()
    out = {
        "check": check_name,
        "shard": shard,
        "evaluations": 0,
        "nontrivial": set(),
        "classes": {},
        "counters": {},
        "discards": {},
        "excluded": {},
        "samples": [],
        "failure": None,
        "error": None,
        "wall": 0.0,
    }
    try:
        env.setup()
        mod = load_module(prop)
        check = next(c for c in mod.CHECKS if c.name == check_name)
        known = load_known(prop)
        state = {"first_fail_t": None, "best": None}
        _raw_execute = check.execute

        def guarded_execute(case):
            return run_with_watchdog(check, _raw_execute, case)

        check = _Guarded(check, guarded_execute)

        def account(case, res: CaseResult):
            out["evaluations"] += 1
            for c in res.classes:
                out["classes"][c] = out["classes"].get(c, 0) + 1
            for k, v in res.counters.items():
                out["counters"][k] = out["counters"].get(k, 0) + v
            if res.discard:
                out["discards"][res.discard] = out["discards"].get(res.discard, 0) + 1
                return
            if res.nontrivial:
                d = res.digest or digest_of(case)
                if d not in out["nontrivial"]:
                    out["nontrivial"].add(d)
                    if len(out["samples"]) < 2:
                        s = canon(case)
                        if len(s) <= 6000:
                            out["samples"].append(json.loads(s))

        def new_violations(res: CaseResult):
            fresh = []
            for v in res.violations:
                e = match_known(known, v.sig)
                if e is not None:
                    key = e["id"]
                    out["excluded"][key] = out["excluded"].get(key, 0) + 1
                else:
                    fresh.append(v)
            return fresh

        if check.enumerate is not None:
            for i, case in enumerate(check.enumerate(tier)):
                if i % nshards != shard:
                    continue
                if n_examples and out["evaluations"] >= n_examples:
                    break
                res = check.execute(case)
                account(case, res)
                fresh = new_violations(res)
                if fresh and out["failure"] is None:
                    out["failure"] = {"case": json.loads(canon(case)), "violations": [v.__dict__ for v in fresh]}
                    break
        else:
            import hypothesis
            from hypothesis import HealthCheck, Phase, given, settings

            strat = check.strategy(tier)

            class Fail(Exception):
                pass

            def body(case):
                shrinking = state["first_fail_t"] is not None
                if shrinking and time.time() - state["first_fail_t"] > shrink_cap:
                    # shrink budget exhausted: only the current best example may fail.
                    if canon(case) != state["best_canon"]:
                        return
                res = check.execute(case)
                if not shrinking:
                    account(case, res)
                fresh = new_violations(res) if not res.discard else []
                if fresh:
                    if state["first_fail_t"] is None:
                        state["first_fail_t"] = time.time()
                        state["sig"] = fresh[0].sig
                    # keep shrinking towards the same root cause only
                    same = [v for v in fresh if v.sig == state["sig"]]
                    if not same:
                        return
                    state["best"] = {"case": json.loads(canon(case)), "violations": [v.__dict__ for v in same]}
                    state["best_canon"] = canon(case)
                    raise Fail(same[0].sig)

            test = given(strat)(body)
            test = hypothesis.seed(seed)(test)
            test = settings(
                max_examples=max(1, n_examples),
                database=None,
                deadline=None,
                derandomize=False,
                report_multiple_bugs=False,
                print_blob=False,
                phases=[Phase.generate, Phase.shrink],
                suppress_health_check=[HealthCheck.too_slow, HealthCheck.data_too_large,
                                       HealthCheck.large_base_example],
            )(test)
            try:
                test()
            except Fail:
                out["failure"] = state["best"]
            except hypothesis.errors.Flaky:
                if state["best"] is not None:
                    out["failure"] = state["best"]
                    out["failure"]["flaky"] = True
                else:
                    raise
    except BaseException:  # harness error
        out["error"] = traceback.format_exc()
    out["nontrivial"] = list(out["nontrivial"])
    out["wall"] = time.time() - t0
    return out


# ----------------------------------------------------------------------------- parent
def write_replay(prop, check_name, failure, seed, tier):
    v = failure["violations"][0]
    # runs against a deliberately changed tree (mutants, seeded changes) must not touch the regression corpus
    d = os.path.join(env.WORK_DIR, "changed_tree", "replays", prop) if os.environ.get("VERIF_MUTANT") else os.path.join(env.VERIF_DIR, "replays", prop)
    os.makedirs(d, exist_ok=True)
    h = digest_of(failure["case"])[:10]
    safe = re.sub(r"[^A-Za-z0-9_.-]+", "_", v["sig"])[:60]
    path = os.path.join(d, f"{check_name}-{safe}-{h}.json")
    with open(path, "w") as f:
        json.dump(
            {
                "property": prop,
                "check": check_name,
                "signature": v["sig"],
                "clause": v["clause"],
                "detail": v["detail"],
                "all_violations": failure["violations"],
                "seed": seed,
                "tier": tier,
                "case": failure["case"],
            },
            f,
            indent=1,
            sort_keys=True,
        )
    return path


def run_property(prop: str, tier: str, seed: int, only: Optional[str] = None) -> int:
    t0 = time.time()
    mod = load_module(prop)
    known = load_known(prop)
    shrink_cap = 45 if tier == "quick" else 200
    if hasattr(mod, "prepare_parent"):
        mod.prepare_parent()  # one-off work in the parent (e.g. building the C++ driver) before the workers start
    jobs = []
    for check in mod.CHECKS:
        if only and check.name != only:
            continue
        n = check.budget.get(tier, check.budget.get("quick", 100))
        scale = float(os.environ.get("VERIF_SCALE", "1"))
        n = max(1, int(n * scale))
        procs = max(1, min(check.max_procs, NPROC, n if check.enumerate is None else NPROC))
        if check.enumerate is not None:
            for s in range(procs):
                jobs.append((prop, check.name, tier, derive_seed(seed, prop, check.name, s), s, procs,
                             0 if check.exhaustive else -(-n // procs), shrink_cap))
        else:
            per = -(-n // procs)
            for s in range(procs):
                jobs.append((prop, check.name, tier, derive_seed(seed, prop, check.name, s), s, procs, per, shrink_cap))

    ctx = multiprocessing.get_context(os.environ.get("VERIF_MP", "spawn"))
    results = []
    if NPROC == 1 or len(jobs) == 1:
        results = [_worker(j) for j in jobs]
    else:
        with ctx.Pool(min(NPROC, len(jobs)), maxtasksperchild=1) as pool:
            results = list(pool.imap_unordered(_worker, jobs, chunksize=1))

    # seconds-long replay tier: the saved regression corpus of this property
    corpus = _replay_corpus(prop, mod, known, only)
    results.append(corpus)

    errors = [r for r in results if r["error"]]
    per_check: Dict[str, Dict[str, Any]] = {}
    nontrivial_all = set()
    samples = []
    classes: Dict[str, int] = {}
    counters: Dict[str, int] = {}
    discards: Dict[str, int] = {}
    excluded: Dict[str, int] = {}
    evaluations = 0
    failures = []
    for r in results:
        pc = per_check.setdefault(r["check"], {"evaluations": 0, "distinct_nontrivial": set(), "wall_s": 0.0})
        pc["evaluations"] += r["evaluations"]
        pc["distinct_nontrivial"].update(r["nontrivial"])
        pc["wall_s"] = max(pc["wall_s"], r["wall"])
        evaluations += r["evaluations"]
        nontrivial_all.update((r["check"], d) for d in r["nontrivial"])
        for k, v in r["classes"].items():
            classes[k] = classes.get(k, 0) + v
        for k, v in r["counters"].items():
            counters[k] = counters.get(k, 0) + v
        for k, v in r["discards"].items():
            discards[k] = discards.get(k, 0) + v
        for k, v in r["excluded"].items():
            excluded[k] = excluded.get(k, 0) + v
        if r["samples"] and len(samples) < 6 and r["shard"] == 0:
            samples.extend({"check": r["check"], "case": s} for s in r["samples"][:2])
        if r["failure"]:
            failures.append((r["check"], r["failure"]))
    if not samples:
        for r in results:
            if r["samples"]:
                samples.extend({"check": r["check"], "case": s} for s in r["samples"][:1])
            if len(samples) >= 3:
                break

    # de-duplicate failures by signature, keep the smallest case
    by_sig = {}
    for check_name, f in failures:
        sig = f["violations"][0]["sig"]
        cur = by_sig.get(sig)
        if cur is None or len(canon(f["case"])) < len(canon(cur[1]["case"])):
            by_sig[sig] = (check_name, f)

    status = 0
    for e in known:
        n = excluded.get(e["id"], 0)
        if n:
            print(f"KNOWN-FINDING: property={prop} {e['id']} {e['what']} (seen {n}x in this run)")
    for sig, (check_name, f) in sorted(by_sig.items()):
        path = write_replay(prop, check_name, f, seed, tier)
        rel = os.path.relpath(path, env.VERIF_DIR)
        print(f"VIOLATION property={prop} replay={rel}")
        print(f"  check={check_name} signature={sig}")
        print(f"  detail={f['violations'][0]['detail'][:600]}")
        status = 1
    if errors:
        for r in errors[:3]:
            print(f"HARNESS-ERROR property={prop} check={r['check']} shard={r['shard']}\n{r['error']}", file=sys.stderr)
        if status == 0:
            status = 2

    wall = time.time() - t0
    exhaustive = all(c.exhaustive for c in mod.CHECKS if not only or c.name == only)
    evidence = {
        "property_id": prop,
        "tier": tier,
        "seed": seed,
        "level": getattr(mod, "LEVEL", "exploration"),
        "coverage": {
            "evaluations": evaluations,
            "distinct_nontrivial": len(nontrivial_all),
            "rule": mod.RULE,
            "samples": samples[:6],
            "exhaustive": bool(exhaustive),
            "per_check": {
                k: {"evaluations": v["evaluations"], "distinct_nontrivial": len(v["distinct_nontrivial"]),
                    "wall_s": round(v["wall_s"], 2)}
                for k, v in per_check.items()
            },
            "classes": dict(sorted(classes.items())),
            "counters": dict(sorted(counters.items())),
            "discarded": discards,
            "excluded_by_known_finding": excluded,
            "harness_errors": len(errors),
        },
        "assumptions": list(getattr(mod, "ASSUMPTIONS", [])),
        "wall_s": round(wall, 2),
        "violations": len(by_sig),
    }
    if not only:
        ev_dir = os.path.join(env.WORK_DIR, "changed_tree", "evidence") if os.environ.get("VERIF_MUTANT") else os.path.join(env.VERIF_DIR, "evidence")
        os.makedirs(ev_dir, exist_ok=True)
        with open(os.path.join(ev_dir, f"{prop}.json"), "w") as f:
            json.dump(evidence, f, indent=1, sort_keys=True, default=str)
    print(
        f"{prop} tier={tier} seed={seed} evaluations={evaluations} "
        f"distinct_nontrivial={len(nontrivial_all)} violations={len(by_sig)} "
        f"known_excluded={sum(excluded.values())} discarded={sum(discards.values())} "
        f"harness_errors={len(errors)} wall={wall:.1f}s -> exit {status}"
    )
    return status


def _replay_corpus(prop, mod, known, only):
    out = {"check": "regression_corpus", "shard": 0, "evaluations": 0, "nontrivial": [], "classes": {}, "counters": {},
           "discards": {}, "excluded": {}, "samples": [], "failure": None, "error": None, "wall": 0.0}
    d = os.path.join(env.VERIF_DIR, "replays", prop)
    if not os.path.isdir(d):
        return out
    t0 = time.time()
    try:
        for name in sorted(os.listdir(d)):
            if not name.endswith(".json"):
                continue
            with open(os.path.join(d, name)) as f:
                data = json.load(f)
            if only and data["check"] != only:
                continue
            check = next((c for c in mod.CHECKS if c.name == data["check"]), None)
            if check is None:
                continue
            res = run_with_watchdog(check, check.execute, data["case"])
            out["evaluations"] += 1
            out["counters"]["corpus_replays"] = out["counters"].get("corpus_replays", 0) + 1
            if res.discard:
                continue
            fresh = []
            for v in res.violations:
                e = match_known(known, v.sig)
                if e is not None:
                    out["excluded"][e["id"]] = out["excluded"].get(e["id"], 0) + 1
                else:
                    fresh.append(v)
            if fresh and out["failure"] is None:
                out["failure"] = {"case": data["case"], "violations": [v.__dict__ for v in fresh]}
                out["check"] = data["check"]
    except BaseException:
        out["error"] = traceback.format_exc()
    out["wall"] = time.time() - t0
    return out


def replay(path: str) -> int:
    with open(path) as f:
        data = json.load(f)
    prop = data["property"]
    env.setup()
    mod = load_module(prop)
    check = next(c for c in mod.CHECKS if c.name == data["check"])
    known = load_known(prop)
    res = run_with_watchdog(check, check.execute, data["case"])
    status = 0
    if res.discard:
        print(f"replay discarded: {res.discard}")
    for v in res.violations:
        e = match_known(known, v.sig)
        if e is not None:
            print(f"KNOWN-FINDING: property={prop} {e['id']} {e['what']}")
            continue
        print(f"VIOLATION property={prop} replay={os.path.relpath(os.path.abspath(path), env.VERIF_DIR)}")
        print(f"  signature={v.sig}\n  detail={v.detail[:1500]}")
        status = 1
    if status == 0:
        print(f"{prop} replay {os.path.basename(path)}: no (new) violation")
    return status
