"""Capture of the optimisation models built inside schedule() and enumeration of their feasible points.

* gurobipy.Model is replaced by a recording subclass (the scheduler modules look `gp.Model` up at call time).
* `_add_variables` of the ILP and TetriSched-Gurobi schedulers is wrapped to keep the scheduler's own
  TaskOptimizerVariables, through which every solution is decoded.
* `pool_solutions(model, limit)` re-solves a *copy-free* version of the captured model with a zero objective and
  PoolSearchMode=2, yielding up to `limit` distinct feasible points ("every feasible solution" for small models).
"""
import contextlib
import io
import os
import sys

from pbt import env

env.setup()
import gurobipy as gp  # noqa: E402
from gurobipy import GRB  # noqa: E402

_orig_model = gp.Model
CAPTURED = {"models": [], "vars": []}
_installed = False


class LicenceLimit(Exception):
    pass


def is_licence_error(e):
    s = str(e)
    return "harness solve budget" in s or "size-limited license" in s or "Model too large" in s or "CPLEX Error  1016" in s or "Promotional version" in s or "1016" in s and "CPLEX" in s


SOLVE_BUDGET_S = float(os.environ.get("VERIF_SOLVE_BUDGET", "20"))


class SolverBudget(Exception):
    """One optimize() call of a scheduler exceeded the harness budget: the case is inconclusive (discarded, counted)."""


class RecordingModel(_orig_model):
    def __init__(self, *a, **k):
        super().__init__(*a, **k)
        CAPTURED["models"].append(self)

    def optimize(self, *a, **k):
        # SIGALRM cannot interrupt a solve that runs inside the C library, and an unconstrained Gurobi takes every core:
        # one thread, and a time budget that turns an endless solve into a counted discard
        mine = False
        try:
            self.Params.Threads = 1
            if self.Params.TimeLimit > SOLVE_BUDGET_S:
                self.Params.TimeLimit = SOLVE_BUDGET_S
                mine = True
        except Exception:
            pass
        r = super().optimize(*a, **k)
        if mine and self.Status == gp.GRB.TIME_LIMIT:
            raise SolverBudget(f"harness solve budget of {SOLVE_BUDGET_S:g} s exhausted (size-limited license or not: inconclusive)")
        return r


def install():
    global _installed
    if _installed:
        return
    _installed = True
    with contextlib.redirect_stdout(io.StringIO()):
        try:
            gp.setParam("OutputFlag", 0)
        except Exception:
            pass
    gp.Model = RecordingModel
    import schedulers.ilp_scheduler as ilp
    import schedulers.tetrisched_gurobi_scheduler as tg

    for mod, cls in ((ilp, ilp.ILPScheduler), (tg, tg.TetriSchedGurobiScheduler)):
        orig = cls._add_variables

        def make(orig):
            def _add_variables(self, *a, **kw):
                r = orig(self, *a, **kw)
                CAPTURED["vars"].append(r)
                return r

            return _add_variables

        cls._add_variables = make(orig)
    # TetriSched-CPLEX asks for cpu_count() threads per solve; 16 workers x 16 threads only slows everything down
    try:
        import types

        import schedulers.tetrisched_cplex_scheduler as tc

        tc.multiprocessing = types.SimpleNamespace(cpu_count=lambda: 1)
    except Exception:
        pass
    # the Z3 scheduler prints the simulation time on every invocation
    import schedulers.z3_scheduler as z3s

    z3s.print = lambda *a, **k: None


def reset():
    CAPTURED["models"].clear()
    CAPTURED["vars"].clear()


@contextlib.contextmanager
def quiet():
    """Swallow the banner lines gurobi/cplex write to the process stdout."""
    sys.stdout.flush()
    old = os.dup(1)
    devnull = os.open(os.devnull, os.O_WRONLY)
    os.dup2(devnull, 1)
    try:
        yield
    finally:
        sys.stdout.flush()
        os.dup2(old, 1)
        os.close(old)
        os.close(devnull)


def pool_solutions(model, limit=400, time_limit=2.0, int_ub=None):
    """Yield callables `val(var)` for up to `limit` feasible points of the captured model.

    Unbounded integer variables (ILP start times) may be capped with `int_ub`: that only restricts the *sample* of
    feasible points that is enumerated, every yielded point is still feasible for the scheduler's model."""
    if int_ub is not None:
        for v in model.getVars():
            if v.VType == GRB.INTEGER and v.UB > int_ub and v.LB <= int_ub:
                v.UB = int_ub
    model.setObjective(0, GRB.MAXIMIZE)
    model.Params.PoolSearchMode = 2
    model.Params.PoolSolutions = limit
    model.Params.MIPGap = 0
    model.Params.TimeLimit = time_limit
    model.Params.Threads = 1
    model.Params.Seed = 1
    model.optimize()
    n = model.SolCount
    for k in range(n):
        model.Params.SolutionNumber = k

        def val(v, _k=k):
            if isinstance(v, (int, float)):
                return v
            return v.Xn

        yield val


def solve_with_objective(model, expr, sense=GRB.MAXIMIZE, time_limit=20):
    """Re-solve the captured model with an adversarial objective; returns (status, objective value, val())."""
    model.Params.PoolSearchMode = 0
    model.Params.MIPGap = 0
    model.Params.TimeLimit = time_limit
    model.Params.Threads = 1
    model.setObjective(expr, sense)
    model.optimize()
    if model.SolCount == 0:
        return model.Status, None, None

    def val(v):
        if isinstance(v, (int, float)):
            return v
        return v.X

    return model.Status, model.ObjVal, val


def decode(policy_name, tasks_to_variables, val):
    """Decode one feasible point through the scheduler's own variable objects.

    Returns {task unique name: {"task", "previously_placed", "placed", "worker", "strategy", "start"}}."""
    out = {}
    for name, tv in tasks_to_variables.items():
        task = tv.task
        rec = {"task": task, "previously_placed": bool(tv.previously_placed), "placed": False, "worker": None, "strategy": None, "start": None, "multi": 0}
        if policy_name == "ILP":
            for (worker_id, strategy), var in tv._placed_on_worker_with_strategy.items():
                if val(var) > 0.5:
                    rec["multi"] += 1
                    rec.update(placed=True, worker=worker_id, strategy=strategy)
            rec["start"] = int(round(val(tv.start_time)))
        else:
            for (worker_id, t, strategy), var in tv.space_time_matrix.items():
                if val(var) > 0.5:
                    rec["multi"] += 1
                    rec.update(placed=True, worker=worker_id, strategy=strategy, start=t)
        out[name] = rec
    return out
