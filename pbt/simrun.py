"""Run one generated world on the real Simulator under monitors (class-level wrappers).

The monitors keep *shadow models* that never read the repository's own book-keeping:
  - a per-worker resource ledger fed by Worker.place_task/remove_task/load_profile/evict_profile
  - a per-task lifecycle history fed by Task.release/schedule/unschedule/start/finish/cancel/preempt
  - the clock / event order fed by Simulator.__step, Simulator.__handle_event
  - the offers and answers of every policy invocation
"""
import sys
import time as _time

from pbt import build, env

env.setup()
import simulator as simmod  # noqa: E402
from utils import EventTime  # noqa: E402
from workers import Worker  # noqa: E402
from workload import BatchStrategy, Placement, Resource, Task, TaskState, Workload  # noqa: E402

US = EventTime.Unit.US


def us(t):
    if t is None:
        return None
    return t.time * int(t.unit.value)


class Abort(BaseException):
    """Raised from a wrapper to stop simulate(): livelock proven or step budget exhausted."""

    def __init__(self, kind, detail):
        super().__init__(kind)
        self.kind = kind
        self.detail = detail


class Monitor:
    def __init__(self):
        self.active = False
        self.building = False
        self.initial_prob = {}

    def reset(self, world, max_steps=4000):
        self.active = True
        self.now = 0  # time of the event being handled / last clock value (us)
        self.exact_runtimes = not getattr(world["flags"], "runtime_variance", 0)
        self.seq = 0
        self.max_steps = max_steps
        self.workers = {}  # id(worker obj) -> shadow
        for wid, winfo in world["info"]["workers"].items():
            self.workers[id(winfo["obj"])] = {
                "id": wid, "name": winfo["name"], "pool": winfo["pool"], "pool_id": winfo["pool_id"],
                "capacity": dict(winfo["capacity"]),
                "tasks": {},  # task key -> (demand dict, batch key or None)
                "batches": {},  # batch key -> {"demand":..., "members": set()}
                "profiles": {},  # profile name -> demand
                "expected_end": {},  # task key -> start + runtime (exact runtimes only)
                "obj": winfo["obj"],
            }
        self.resident = {}  # task key -> worker name
        self.max_resident = 0  # max tasks on one worker at once
        self.ledger_violations = []
        self.ledger_ops = 0
        self.tasks = {}  # task key -> dict(history=[(op, time, before, after)], obj)
        self.steps = []  # (clock before, step size)
        self.n_steps = 0
        self.zero_streak = 0
        self.events = []  # (seq, type name, time, task key or None)
        self.sched = []  # one dict per policy invocation
        self.in_schedule = None
        self.clock_violations = []
        self.handled_since_step = True
        self.removals = {}  # task key -> time of Worker.remove_task
        self.placements = {}  # task key -> list of (time, worker name, strategy runtime, demand)
        self.place_failures = []
        self.util_snapshots = []  # (row index, {pool id: {type: occupancy}})
        self.deferrals = []  # dicts: unjustified TASK_NOT_READY / WORKER_NOT_READY and justified counts
        self.n_deferrals = {"TASK_NOT_READY": 0, "WORKER_NOT_READY": 0}
        self.repo_ledger_mismatch = []
        self.parents = {}  # task key -> (terminal?, [parent keys]); filled lazily from the spec
        self.spec_jobs = {}
        self.idle_checks = 0
        self.initial_prob = {}  # task key -> probability right after instantiation
        self.state_ops = 0  # bumped by every ledger operation and task transition
        self.sched_loop = (None, None, 0)  # (clock, state_ops, repeats)
        self.event_loop = (None, None, 0)

    def tick(self):
        self.seq += 1
        return self.seq

    # -- ledger ---------------------------------------------------------------------
    def occupancy(self, sh):
        occ = {}
        for demand, bkey in sh["tasks"].values():
            if bkey is None:
                for t, q in demand.items():
                    occ[t] = occ.get(t, 0) + q
        for b in sh["batches"].values():
            for t, q in b["demand"].items():
                occ[t] = occ.get(t, 0) + q
        for demand in sh["profiles"].values():
            for t, q in demand.items():
                occ[t] = occ.get(t, 0) + q
        return occ

    def check_ledger(self, sh, what):
        self.ledger_ops += 1
        self.state_ops += 1
        occ = self.occupancy(sh)
        for t, q in occ.items():
            if q > sh["capacity"].get(t, 0):
                self.ledger_violations.append(
                    ("oversubscribed", f"at t={self.now} after {what}: worker {sh['name']} holds {q} {t} of capacity "
                     f"{sh['capacity'].get(t, 0)}; residents={sorted(sh['tasks'])}")
                )
        n = len(sh["tasks"])
        if n > self.max_resident:
            self.max_resident = n
        # cross-check with the repository's own ledger through its public getters
        res = sh["obj"].resources
        for t, cap in sh["capacity"].items():
            r = Resource(name=t, _id="any")
            alloc, avail, total = res.get_allocated_quantity(r), res.get_available_quantity(r), res.get_total_quantity(r)
            if alloc + avail != total or total != cap or alloc != occ.get(t, 0) or avail < 0:
                self.repo_ledger_mismatch.append(
                    f"at t={self.now} after {what}: worker {sh['name']} {t}: repo allocated={alloc} available={avail} "
                    f"total={total}; configured={cap} shadow occupancy={occ.get(t, 0)}"
                )

    def fits(self, sh, demand, batch_key=None):
        """Can the worker hold `demand` now?  Tasks whose execution ends at or before `now` do not count: a resource
        freed at t must be reusable at t, whatever order the same-microsecond events are handled in."""
        if batch_key is not None and batch_key in sh["batches"]:
            # joining a resident batch is free - unless every member ends at `now` (the batch may already be dissolved)
            members = [k for k, (_d, b) in sh["tasks"].items() if b == batch_key]
            if any(sh["expected_end"].get(k) is None or sh["expected_end"][k] > self.now for k in members):
                return True
        occ = {}
        done_batches = set()
        for k, (d, bkey) in sh["tasks"].items():
            end = sh["expected_end"].get(k)
            if end is not None and end <= self.now:
                continue
            if bkey is None:
                for t, q in d.items():
                    occ[t] = occ.get(t, 0) + q
            elif bkey not in done_batches:
                done_batches.add(bkey)
                for t, q in d.items():
                    occ[t] = occ.get(t, 0) + q
        for d in sh["profiles"].values():
            for t, q in d.items():
                occ[t] = occ.get(t, 0) + q
        return all(occ.get(t, 0) + q <= sh["capacity"].get(t, 0) for t, q in demand.items())

    def finished(self, key):
        rec = self.tasks.get(key)
        return bool(rec) and any(h[0] == "finish" and h[6] is None for h in rec["history"])


MON = Monitor()


def demand_of(strategy):
    d = {}
    for r, q in strategy.resources._resource_vector.items():
        d[r.name] = d.get(r.name, 0) + q
    return d


def tkey(task):
    return task.unique_name


_installed = False


def install():
    global _installed
    if _installed:
        return
    _installed = True

    # ---- Worker ledger operations -------------------------------------------------
    o_place = Worker.place_task

    def place_task(self, task, execution_strategy):
        sh = MON.workers.get(id(self)) if MON.active else None
        if sh is None:
            return o_place(self, task, execution_strategy)
        try:
            r = o_place(self, task, execution_strategy)
        except Exception as e:
            MON.place_failures.append((MON.now, sh["name"], tkey(task), f"{type(e).__name__}: {e}"))
            raise
        k = tkey(task)
        demand = demand_of(execution_strategy)
        if isinstance(execution_strategy, BatchStrategy):
            bkey = execution_strategy.id
            b = sh["batches"].get(bkey)
            if b is None:
                b = sh["batches"][bkey] = {"demand": demand, "members": set()}
            b["members"].add(k)
            sh["tasks"][k] = (demand, bkey)
        else:
            sh["tasks"][k] = (demand, None)
        # with exact runtimes the task must leave at start + runtime, whatever the order of same-time events
        sh["expected_end"][k] = (MON.now + us(execution_strategy.runtime)) if MON.exact_runtimes else None
        if k in MON.resident and MON.resident[k] != sh["name"]:
            MON.ledger_violations.append(("two_workers", f"task {k} placed on {sh['name']} while resident on {MON.resident[k]}"))
        MON.resident[k] = sh["name"]
        MON.placements.setdefault(k, []).append((MON.now, sh["name"], us(execution_strategy.runtime), demand, sh["pool_id"]))
        MON.check_ledger(sh, f"place {k}")
        return r

    Worker.place_task = place_task

    o_remove = Worker.remove_task

    def remove_task(self, current_time, task):
        sh = MON.workers.get(id(self)) if MON.active else None
        if sh is None:
            return o_remove(self, current_time, task)
        r = o_remove(self, current_time, task)
        k = tkey(task)
        ent = sh["tasks"].pop(k, None)
        sh["expected_end"].pop(k, None)
        if ent is not None and ent[1] is not None:
            b = sh["batches"].get(ent[1])
            if b is not None:
                b["members"].discard(k)
                if not b["members"]:
                    del sh["batches"][ent[1]]
        MON.resident.pop(k, None)
        MON.removals.setdefault(k, []).append(us(current_time))
        MON.check_ledger(sh, f"remove {k}")
        return r

    Worker.remove_task = remove_task

    o_load = Worker.load_profile

    def load_profile(self, profile, loading_strategy):
        sh = MON.workers.get(id(self)) if MON.active else None
        r = o_load(self, profile, loading_strategy)
        if sh is not None:
            sh["profiles"][profile.name] = demand_of(loading_strategy)
            MON.check_ledger(sh, f"load {profile.name}")
        return r

    Worker.load_profile = load_profile

    o_evict = Worker.evict_profile

    def evict_profile(self, profile):
        sh = MON.workers.get(id(self)) if MON.active else None
        r = o_evict(self, profile)
        if sh is not None:
            sh["profiles"].pop(profile.name, None)
            MON.check_ledger(sh, f"evict {profile.name}")
        return r

    Worker.evict_profile = evict_profile

    # ---- Task lifecycle -----------------------------------------------------------
    def wrap_task(opname, time_index, time_kw):
        orig = getattr(Task, opname)

        def wrapper(self, *a, **kw):
            if not MON.active:
                return orig(self, *a, **kw)
            before = self.state.name
            t = kw.get(time_kw) if time_kw in kw else (a[time_index] if len(a) > time_index else None)
            err = None
            try:
                return orig(self, *a, **kw)
            except Exception as e:
                err = f"{type(e).__name__}: {e}"
                raise
            finally:
                MON.state_ops += 1
                rec = MON.tasks.setdefault(tkey(self), {"history": [], "obj": self})
                rec["history"].append((opname, us(t) if isinstance(t, EventTime) else None, before, self.state.name, MON.now, MON.tick(), err))

        setattr(Task, opname, wrapper)

    for name in ("release", "schedule", "unschedule", "start", "finish", "cancel", "preempt"):
        wrap_task(name, 0, "time")

    # ---- Simulator clock and events -----------------------------------------------
    S = simmod.Simulator
    o_step = S._Simulator__step

    def step(self, step_size=EventTime(1, US)):
        if not MON.active:
            return o_step(self, step_size)
        before = us(self._simulator_time)
        ss = us(step_size)
        MON.steps.append((before, ss))
        MON.n_steps += 1
        if ss == 0 and not MON.handled_since_step:
            MON.zero_streak += 1
            if MON.zero_streak >= 3:
                running = [(tkey(t), us(t.remaining_time)) for t in self._worker_pools.get_placed_tasks()]
                raise Abort("livelock", f"simulate() repeats step(0) at t={before} without handling any event; placed tasks={running}")
        else:
            MON.zero_streak = 0
        MON.handled_since_step = False
        if MON.n_steps > MON.max_steps:
            raise Abort("step_budget", f"more than {MON.max_steps} clock steps")
        if not MON.resident:
            # nothing is placed according to the shadow model: every live worker must be at full capacity
            MON.idle_checks += 1
            for sh in MON.workers.values():
                res = sh["obj"].resources
                for t, cap in sh["capacity"].items():
                    rr = Resource(name=t, _id="any")
                    held = sum(d.get(t, 0) for d in sh["profiles"].values())
                    if res.get_available_quantity(rr) != cap - held:
                        MON.repo_ledger_mismatch.append(
                            f"idle cluster at t={before}: worker {sh['name']} has {res.get_available_quantity(rr)} {t} available of {cap}"
                        )
        r = o_step(self, step_size)
        MON.now = us(self._simulator_time)
        if MON.now < before:
            MON.clock_violations.append(("clock_moved_backwards", f"clock went from {before} to {MON.now}"))
        return r

    S._Simulator__step = step

    o_handle = S._Simulator__handle_event

    def handle_event(self, event):
        if not MON.active:
            return o_handle(self, event)
        MON.handled_since_step = True
        t = us(event.time)
        clock = us(self._simulator_time)
        if t != clock:
            MON.clock_violations.append(("event_time_vs_clock", f"{event.event_type.name} for t={t} handled at clock {clock}"))
        MON.now = t
        MON.events.append((MON.tick(), event.event_type.name, t, tkey(event.task) if event.task is not None else None))
        # any event type: hundreds of events handled at one clock value with no task or ledger change in between
        c2, ops2, n2 = MON.event_loop
        if c2 == t and ops2 == MON.state_ops:
            n2 += 1
            if n2 >= 400:
                raise Abort("livelock", f"{n2} events handled at t={t} with no task or ledger change in between (last: {event.event_type.name} "
                                        f"{tkey(event.task) if event.task is not None else ''}): the clock cannot advance")
            MON.event_loop = (c2, ops2, n2)
        else:
            MON.event_loop = (t, MON.state_ops, 0)
        if event.event_type.name == "SCHEDULER_START":
            c, ops, n = MON.sched_loop
            if c == t and ops == MON.state_ops:
                n += 1
                if n >= 30:
                    raise Abort("livelock", f"SCHEDULER_START handled {n + 1}x at t={t} with no task or ledger change in between: the clock cannot advance")
                MON.sched_loop = (c, ops, n)
            else:
                MON.sched_loop = (t, MON.state_ops, 0)
        return o_handle(self, event)

    S._Simulator__handle_event = handle_event

    o_util = S._Simulator__log_utilization

    def log_utilization(self, sim_time):
        if MON.active:
            snap = {}
            for sh in MON.workers.values():
                occ = MON.occupancy(sh)
                d = snap.setdefault(sh["pool_id"], {})
                for t in sh["capacity"]:
                    d[t] = d.get(t, 0) + occ.get(t, 0)
            MON.util_snapshots.append((len(env.CSV.rows), snap))
        return o_util(self, sim_time)

    S._Simulator__log_utilization = log_utilization

    o_htp = S._Simulator__handle_task_placement

    def handle_task_placement(self, event, workload):
        if not MON.active:
            return o_htp(self, event, workload)
        task = event.task
        k = tkey(task)
        tg = workload.get_task_graph(task.task_graph)
        parents = [tkey(p) for p in tg.get_parents(task)] if tg is not None else []
        done = [MON.finished(p) for p in parents]
        parents_ok = (any(done) if task.terminal else all(done)) if parents else True
        pl = event.placement
        strategy = pl.execution_strategy
        pool_ok = None
        if strategy is not None:
            demand = demand_of(strategy)
            bkey = strategy.id if isinstance(strategy, BatchStrategy) else None
            cands = [sh for sh in MON.workers.values() if sh["pool_id"] == pl.worker_pool_id and (pl.worker_id is None or sh["id"] == pl.worker_id)]
            pool_ok = any(MON.fits(sh, demand, bkey) for sh in cands)
        n_rows = len(env.CSV.rows)
        state_before = task.state.name
        r = o_htp(self, event, workload)
        new_rows = env.CSV.rows[n_rows:]
        kinds = [row.split(",")[1] for row in new_rows if "," in row]
        if "TASK_NOT_READY" in kinds:
            MON.n_deferrals["TASK_NOT_READY"] += 1
            if task.terminal and tg is not None and any(p.state.name == "CANCELLED" for p in tg.get_parents(task)):
                MON.n_deferrals["JOIN_WAITS_WITH_CANCELLED_PARENT"] = MON.n_deferrals.get("JOIN_WAITS_WITH_CANCELLED_PARENT", 0) + 1
            if parents_ok and state_before == "SCHEDULED":
                MON.deferrals.append({"kind": "TASK_NOT_READY", "task": k, "time": MON.now, "parents": dict(zip(parents, done))})
        if "WORKER_NOT_READY" in kinds:
            MON.n_deferrals["WORKER_NOT_READY"] += 1
            if pool_ok:
                MON.deferrals.append({"kind": "WORKER_NOT_READY", "task": k, "time": MON.now, "demand": demand,
                                      "pool": pl.worker_pool_id, "worker": pl.worker_id})
        return r

    S._Simulator__handle_task_placement = handle_task_placement

    # ---- offers -------------------------------------------------------------------
    o_gst = Workload.get_schedulable_tasks

    def get_schedulable_tasks(self, *a, **kw):
        r = o_gst(self, *a, **kw)
        if MON.active and MON.in_schedule is not None:
            MON.in_schedule["offers"].append([tkey(t) for t in r])
            MON.in_schedule["offer_objs"].append(list(r))
            if len(MON.in_schedule["offers"]) == 1:
                # states at offer time (they change later): offered tasks and starved released tasks
                now = a[0] if a else kw.get("time")
                info = []
                offered = set(id(t) for t in r)
                starved = []
                for tg in self._task_graphs.values():
                    for t in tg.get_nodes():
                        if id(t) in offered:
                            parents = tg.get_parents(t)
                            done = [p.is_complete() for p in parents]
                            ok = (any(done) if t.terminal else all(done)) if parents else True
                            info.append((tkey(t), t.state.name, ok, [(tkey(p), p.state.name, us(p.remaining_time)) for p in parents]))
                        elif t.state == TaskState.RELEASED and t.release_time <= now:
                            starved.append(tkey(t))
                MON.in_schedule["offer_info"] = info
                MON.in_schedule["starved"] = starved
        return r

    Workload.get_schedulable_tasks = get_schedulable_tasks

    # ---- task-graph instantiation (probabilities right after submission) -------------
    from workload import JobGraph

    o_gen = JobGraph._generate_task_graph

    def _generate_task_graph(self, *a, **kw):
        tg = o_gen(self, *a, **kw)
        if MON.active or MON.building:
            for t in tg.get_nodes():
                MON.initial_prob[tkey(t)] = t.probability
        return tg

    JobGraph._generate_task_graph = _generate_task_graph


def wrap_policy(policy, sim_ref, hooks=None):
    """Instance-level wrapper around policy.schedule recording inputs and answers."""
    orig = policy.schedule

    def schedule(sim_time, workload, worker_pools):
        rec = {"time": us(sim_time), "offers": [], "offer_objs": [], "seq": MON.tick(), "error": None, "placements": [],
               "resident": len(MON.resident)}
        MON.in_schedule = rec
        if hooks and hooks.get("before"):
            hooks["before"](rec, sim_time, workload, worker_pools)
        try:
            placements = orig(sim_time, workload, worker_pools)
        except Exception as e:
            rec["error"] = f"{type(e).__name__}: {e}"
            MON.sched.append(rec)
            MON.in_schedule = None
            raise
        MON.in_schedule = None
        rec["returned"] = placements
        for p in placements:
            if p.placement_type in (Placement.PlacementType.PLACE_TASK, Placement.PlacementType.CANCEL_TASK):
                rec["placements"].append(
                    {
                        "type": p.placement_type.name,
                        "task": tkey(p.task),
                        "placed": p.is_placed(),
                        "time": us(p.placement_time) if p.placement_time is not None else None,
                        "pool": p.worker_pool_id,
                        "worker": p.worker_id,
                        "runtime": us(p.execution_strategy.runtime) if p.placement_type == Placement.PlacementType.PLACE_TASK and p.execution_strategy is not None else None,
                        "strategy": p.execution_strategy if p.placement_type == Placement.PlacementType.PLACE_TASK else None,
                        "task_obj": p.task,
                    }
                )
        if hooks and hooks.get("after"):
            hooks["after"](rec, sim_time, workload, worker_pools, placements)
        MON.sched.append(rec)
        return placements

    policy.schedule = schedule


class RunRecord:
    pass


def run_world(spec, hooks=None, max_steps=4000, prepare=None):
    """Build and simulate the world; returns a RunRecord with every observation."""
    install()
    env.reset_case(spec["seed"])
    MON.building = True
    MON.initial_prob = {}
    try:
        world = build.build_world(spec)
    finally:
        MON.building = False
    ip = MON.initial_prob
    MON.reset(world, max_steps=max_steps)
    MON.initial_prob = ip
    rec = RunRecord()
    rec.spec = spec
    rec.world = world
    rec.abort = None
    rec.exception = None
    t0 = _time.time()
    try:
        flags = world["flags"]
        sim = simmod.Simulator(
            worker_pools=world["worker_pools"],
            scheduler=world["policy"],
            workload_loader=world["loader"],
            loop_timeout=world["timeout"],
            scheduler_frequency=EventTime(flags.scheduler_frequency, US),
            _flags=flags,
        )
        rec.sim = sim
        wrap_policy(world["policy"], sim, hooks)
        if prepare:
            prepare(sim, world)
        try:
            sim.simulate()
        except Abort as a:
            rec.abort = (a.kind, a.detail)
        except Exception as e:
            import traceback

            tb = traceback.extract_tb(sys.exc_info()[2])
            frames = [f for f in tb if "/verif/" not in f.filename]
            last = frames[-1] if frames else tb[-1]
            rec.exception = (type(e).__name__, str(e), f"{last.filename.split('/')[-1]}:{last.name}")
    finally:
        MON.active = False
    rec.wall = _time.time() - t0
    rec.mon = MON
    rec.rows = list(env.CSV.rows)
    rec.end_time = us(rec.sim._simulator_time) if hasattr(rec, "sim") else None
    # final task table
    rec.graphs = {}
    wl = rec.sim._workload if hasattr(rec, "sim") else world["workload"]
    for gname, tg in wl.task_graphs.items():
        rec.graphs[gname] = tg
    rec.workload = wl
    return rec


def final_tasks(rec):
    out = {}
    for gname, tg in rec.graphs.items():
        for t in tg.get_nodes():
            out[tkey(t)] = t
    return out
