"""C14 - optimisation-based planners do not leave achievable goodput on the table."""
from hypothesis import strategies as st

from pbt import env, schedcall as SC, solvercap, specs
from pbt.runner import CaseResult, Check, Violation

env.setup()
from workload import Placement, TaskState  # noqa: E402

PROPERTY = "C14"
LEVEL = "exploration"
RULE = (
    "Hypothesis instances inside the enumeration bound (<= 4 offered tasks, <= 2 workers, <= 2 strategies, horizon <= 12 slots, "
    "discretisation 1-3, occupancy by running tasks (also partially executed parents of offered tasks), earlier plans that may be "
    "retracted (ILP retract_schedules), task-by-task mode and whole-graph chains); the harness enumerates the planner's "
    "documented decision space by DFS (ILP: integer starts >= max(now+1, release), closed-interval occupancy, +1 precedence, deadline; "
    "TetriSched: slot-grid starts, half-open occupancy sampled on the grid, deadline cells) and compares: ILP rewarded graphs == "
    "brute-force maximum; TetriSched: no unplaced offered task (with its unplaced ancestors) can be added. Non-trivial = an instance "
    "where the brute force cannot place everything (contention); distinct by case hash."
)
ASSUMPTIONS = [
    "objective values stay <= 8 so the 10% MIP gap cannot hide one task / one graph",
    "running tasks occupy their worker for [now, now + remaining); the main campaign starts them at `now` (remaining == full runtime), "
    "partially executed ones are a separate counted class (finding F12)",
    "solver licence-limit errors are discarded",
]
us = SC.us


def instance_cases(policies, partial=False, retract=False):
    @st.composite
    def s(draw):
        pname = draw(st.sampled_from(list(policies)))
        n_workers = draw(st.integers(1, 2))
        types = draw(st.sampled_from([["CPU"], ["CPU"], ["CPU", "GPU"]]))
        cluster = [{"name": "P0", "workers": [{"name": f"W{w}", "resources": [[t, draw(st.integers(1, 2))] for t in types]} for w in range(n_workers)]}]
        n_prof = draw(st.integers(1, 3))
        profiles = []
        for i in range(n_prof):
            strategies = []
            for _ in range(draw(st.integers(1, 2))):
                t = draw(st.sampled_from(types))
                strategies.append({"runtime": draw(st.integers(1, 5)), "resources": {t: draw(st.integers(1, 2))}, "batch": 1})
            profiles.append({"name": f"pr{i}", "strategies": strategies})
        now = draw(st.integers(2, 10))
        chains = (draw(st.sampled_from([True, True, False])) if partial else draw(st.booleans())) and pname != "TetriSched_CPLEX"
        budget = draw(st.integers(2, 4))
        graphs, used = [], 0
        while used < budget:
            ln = draw(st.integers(2, min(3, budget - used))) if chains and budget - used >= 2 else 1
            jobs = [{"name": f"G{len(graphs)}_j{i}", "profile": draw(st.integers(0, n_prof - 1)), "children": [i + 1] if i + 1 < ln else [],
                     "conditional": False, "terminal": False, "probability": 1.0} for i in range(ln)]
            used += ln
            graphs.append({"name": f"G{len(graphs)}", "jobs": jobs, "release_time": draw(st.sampled_from([0, now, max(0, now - 1)])),
                           "deadline": now + draw(st.integers(2, 12))})
        running = []
        k = draw(st.integers(0, 2))
        for i in range(k):
            graphs.append({"name": f"R{i}", "jobs": [{"name": f"R{i}_j", "profile": draw(st.integers(0, n_prof - 1)), "children": [],
                                                       "conditional": False, "terminal": False, "probability": 1.0}], "release_time": 0, "deadline": now + 40})
            running.append({"graph": f"R{i}", "job": f"R{i}_j", "pool": 0, "worker": draw(st.integers(0, 1)), "strategy": draw(st.integers(0, 1)),
                            "elapsed": draw(st.integers(1, 3)) if partial else 0})
        if partial and chains:
            # a chain whose first task is already running (partially executed) while its child is still to be planned
            for g in graphs:
                if len(g["jobs"]) >= 2 and not g["name"].startswith("R") and draw(st.booleans()):
                    running.append({"graph": g["name"], "job": g["jobs"][0]["name"], "pool": 0, "worker": draw(st.integers(0, 1)), "strategy": draw(st.integers(0, 1)),
                                    "elapsed": draw(st.integers(1, 3))})
                    g["release_time"] = 0
        disc = draw(st.sampled_from([1, 1, 2, 3])) if pname != "ILP" else 1
        pol = {"name": pname, "goal": "max_goodput", "enforce_deadlines": True, "retract_schedules": False, "lookahead": 0, "batching": False}
        if pname == "ILP":
            pol["release_taskgraphs"] = chains
        elif pname == "TetriSched_Gurobi":
            pol.update(release_taskgraphs=chains, time_discretization=disc, plan_ahead=12 * disc if draw(st.booleans()) else -1)
        else:
            pol.update(time_discretization=disc, plan_ahead=12 * disc if draw(st.booleans()) else -1)
        scheduled = []
        if pname == "ILP" and (retract or draw(st.integers(0, 3)) == 0):
            # retract_schedules: tasks an earlier invocation planned for later are offered again and may be moved or dropped
            # like any other offered task, so the optimum ranges over them too
            pol["retract_schedules"] = True
            for g in graphs:
                if not g["name"].startswith("R") and (draw(st.booleans()) or (retract and not scheduled)):
                    scheduled.append({"graph": g["name"], "job": g["jobs"][0]["name"], "pool": 0, "worker": draw(st.integers(0, 1)),
                                      "strategy": draw(st.integers(0, 1)), "at": draw(st.integers(1, 6))})
        case = {"seed": draw(st.integers(0, 999)), "now": now, "cluster": cluster, "profiles": profiles, "graphs": graphs, "running": running,
                "scheduled": scheduled, "completed": [], "policy": pol, "chains": chains}
        if pname != "ILP" and draw(st.integers(0, 2)) == 0:
            # the policy object has already served an earlier invocation (one short-deadline task at now - 1): the
            # TetriSched planners keep no state between invocations that could matter for the plan
            case["reused_policy"] = True
        return case

    return s()


class Space:
    """The decision space of one invocation, as documented by the planner."""

    def __init__(self, case, rec):
        self.case = case
        state = rec["state"]
        self.now = us(state["now"])
        self.pname = case["policy"]["name"]
        self.workers = []
        for pool in state["worker_pools"].worker_pools:
            for w in pool.workers:
                self.workers.append((w.id, dict(state["info"]["workers"][w.id]["capacity"])))
        self.running = []
        self.running_full = []  # the reservation of finding F12: the full strategy runtime counted from now
        for t in state["tasks"].values():
            if t.state == TaskState.RUNNING:
                pl = t.current_placement
                self.running.append((pl.worker_id, self.now, self.now + us(t.remaining_time), SC.demand_of(pl.execution_strategy)))
                self.running_full.append((pl.worker_id, self.now, self.now + us(pl.execution_strategy.runtime), SC.demand_of(pl.execution_strategy)))
        self.disc = case["policy"].get("time_discretization", 1)
        self.wl = state["workload"]

    def options(self, t, horizon_end):
        """(worker id, strategy, start) options of task t, ignoring other new tasks."""
        out = []
        rel = us(t.release_time) if not t.release_time.is_invalid() else self.now
        for wid, cap in self.workers:
            for s in t.available_execution_strategies:
                d = SC.demand_of(s)
                if any(cap.get(r, 0) < q for r, q in d.items()):
                    continue
                rt = us(s.runtime)
                if self.pname == "ILP":
                    starts = range(max(self.now + 1, rel), us(t.deadline) - rt + 1)
                else:
                    starts = [x for x in range(self.now, horizon_end + 1, self.disc) if x >= rel and x + rt <= us(t.deadline)]
                for st_ in starts:
                    out.append((wid, s, st_, rt, d))
        return out

    pairwise = False

    def fits_pairwise(self, placed, opt):
        """ILP's actual capacity constraint: for every task and every worker, the task's own demand there plus the demand
        of *all* tasks on that worker whose closed interval intersects the task's interval must fit - even if those
        tasks never run at the same instant."""
        allt = [(w, a, b, dd) for (w, a, b, dd) in self.running] + [(w, st_, st_ + r, dd) for (w, _s, st_, r, dd) in placed + [opt]]
        caps = dict(self.workers)
        n_running = len(self.running)
        for i, (w1, a1, b1, d1) in enumerate(allt):
            for wid, cap in caps.items():
                if i < n_running and wid != w1:
                    continue  # a task that is already running is only constrained on the worker it runs on
                use = dict(d1) if w1 == wid else {}
                for j, (w2, a2, b2, d2) in enumerate(allt):
                    if i != j and w2 == wid and not (a1 > b2 or b1 < a2):
                        for r, q in d2.items():
                            use[r] = use.get(r, 0) + q
                if any(q > cap.get(r, 0) for r, q in use.items()):
                    return False
        return True

    def fits(self, placed, opt):
        """Does option `opt` fit next to the running tasks and the already chosen options `placed`?"""
        if self.pairwise:
            return self.fits_pairwise(placed, opt)
        wid, s, start, rt, d = opt
        cap = dict(self.workers)[wid]
        others = [(w, a, b, dd) for (w, a, b, dd) in self.running if w == wid] + [(w, st_, st_ + r, dd) for (w, _s, st_, r, dd) in placed if w == wid]
        if self.pname == "ILP":
            # closed intervals [start, start + rt]; check at every integer instant of the new interval and of the others
            lo, hi = start, start + rt
            points = set([lo, hi] + [a for (_w, a, b, _d) in others] + [b for (_w, a, b, _d) in others])
            for p in points:
                use = dict(d) if lo <= p <= hi else {}
                for (_w, a, b, dd) in others:
                    if a <= p <= b:
                        for r, q in dd.items():
                            use[r] = use.get(r, 0) + q
                if lo <= p <= hi and any(q > cap.get(r, 0) for r, q in use.items()):
                    return False
            return True
        # TetriSched: half-open windows sampled on the slot grid
        t = start
        while t < start + rt:
            use = dict(d)
            for (_w, a, b, dd) in others:
                if a <= t < b:
                    for r, q in dd.items():
                        use[r] = use.get(r, 0) + q
            if any(q > cap.get(r, 0) for r, q in use.items()):
                return False
            t += self.disc
        # the new task may also overload a grid point inside another task's window only if it covers that point: covered above
        return True


def ilp_best(space, offered, reward_sets, horizon_end):
    """Maximum number of rewarded graphs over the ILP decision space (DFS with pruning)."""
    order = sorted(offered, key=lambda t: space.wl.get_task_graph(t.task_graph).get_node_depth(t))
    opts = {t.unique_name: space.options(t, horizon_end) for t in order}
    parents = {t.unique_name: [p for p in space.wl.get_task_graph(t.task_graph).get_parents(t) if p in offered] for t in order}
    best = {"n": -1, "plan": None}
    nodes = [0]

    def score(plan):
        return sum(1 for g, ts in reward_sets.items() if all(plan.get(n) is not None for n in ts))

    def rec(i, placed, plan):
        nodes[0] += 1
        if nodes[0] > 400000:
            return
        if i == len(order):
            sc = score(plan)
            if sc > best["n"]:
                best["n"], best["plan"] = sc, dict(plan)
            return
        # bound: graphs still completable
        possible = sum(1 for g, ts in reward_sets.items() if all(plan.get(n, 1) is not None for n in ts))
        if possible <= best["n"]:
            return
        t = order[i]
        name = t.unique_name
        ps = parents[name]
        if all(plan.get(p.unique_name) is not None for p in ps):
            lb = max([plan[p.unique_name][2] + plan[p.unique_name][3] + 1 for p in ps], default=0)
            for o in opts[name]:
                if o[2] < lb:
                    continue
                if space.fits(placed, o):
                    plan[name] = o
                    rec(i + 1, placed + [o], plan)
                    if best["n"] == len(reward_sets):
                        return
        plan[name] = None
        rec(i + 1, placed, plan)
        del plan[name]

    rec(0, [], {})
    return best["n"], best["plan"], nodes[0] > 400000


def execute(case):
    res = CaseResult()
    V = res.violations
    pname = case["policy"]["name"]
    prepare = None
    if case.get("reused_policy"):
        def prepare(policy, state):
            from pbt import statebuilder

            warm = {"seed": case["seed"], "now": max(0, case["now"] - 1), "cluster": case["cluster"], "profiles": case["profiles"],
                    "graphs": [{"name": "WARM", "jobs": [{"name": "WARM_j", "profile": 0, "children": [], "conditional": False, "terminal": False, "probability": 1.0}],
                                "release_time": 0, "deadline": max(0, case["now"] - 1) + 2}],
                    "running": [], "scheduled": [], "completed": []}
            ws = statebuilder.build_state(warm)
            with solvercap.quiet():
                policy.schedule(ws["now"], ws["workload"], ws["worker_pools"])
            solvercap.reset()

    rec = SC.invoke(case, prepare=prepare)
    if rec["discard"]:
        res.discard = rec["discard"]
        return res
    if rec["error"]:
        res.discard = "schedule_raised(C10)"
        return res
    state = rec["state"]
    space = Space(case, rec)
    retract = bool(case["policy"].get("retract_schedules"))
    offered = [t for t, s in (rec["offers"][0] if rec["offers"] else []) if s in ("RELEASED", "VIRTUAL") or (retract and s == "SCHEDULED")]
    if not offered or len(offered) > 4:
        res.discard = "outside_enumeration_bound"
        return res
    plan = {}
    for p in rec["placements"]:
        if p.placement_type == Placement.PlacementType.PLACE_TASK:
            plan[p.task.unique_name] = p if p.is_placed() else None
    horizon_end = max(us(t.deadline) for t in offered)
    partial = any(r.get("elapsed", 0) > 0 for r in case["running"])
    tag = ".partially_executed_running_task" if partial else ""
    contention = False
    if pname == "ILP":
        # reward sets as documented: sinks with release_taskgraphs, else the deepest offered tasks of each graph
        reward_sets = {}
        for t in offered:
            tg = space.wl.get_task_graph(t.task_graph)
            if case["policy"].get("release_taskgraphs"):
                is_reward = not tg.get_children(t)
            else:
                is_reward = not any(c in offered for c in tg.get_children(t))
            if is_reward:
                reward_sets.setdefault(t.task_graph, []).append(t.unique_name)
        achieved = sum(1 for g, ts in reward_sets.items() if all(plan.get(n) is not None for n in ts))
        best, best_plan, truncated = ilp_best(space, offered, reward_sets, horizon_end)
        if truncated:
            res.discard = "brute_force_truncated"
            return res
        contention = best < len(reward_sets)
        if achieved < best:
            space.pairwise = True
            best_pw, _plan_pw, trunc_pw = ilp_best(space, offered, reward_sets, horizon_end)
            space.pairwise = False
            if not trunc_pw and best_pw == achieved:
                tag += ".pairwise_overlap_overconstraint"
            desc = {n: (None if o is None else (dict(space.workers and [(w, i) for i, (w, _c) in enumerate(space.workers)])[o[0]], us(o[1].runtime), o[2])) for n, o in best_plan.items()}
            got = {n: (None if p is None else (us(p.placement_time), us(p.execution_strategy.runtime))) for n, p in plan.items()}
            V.append(Violation("goodput_left_on_the_table",
                               f"ILP rewarded {achieved} task graphs, a feasible plan rewards {best}: {desc} (worker index, runtime, start); ILP plan {got}; case={case}",
                               "goodput.ilp_below_brute_force" + tag))
    else:
        # TetriSched: maximality of the returned plan
        placed_opts = []
        for n, p in plan.items():
            if p is not None:
                placed_opts.append((p.worker_id, p.execution_strategy, us(p.placement_time), us(p.execution_strategy.runtime), SC.demand_of(p.execution_strategy)))
        he = space.now + (case["policy"].get("plan_ahead", -1) if case["policy"].get("plan_ahead", -1) > 0 else horizon_end)
        unplaced = [t for t in offered if plan.get(t.unique_name) is None]
        contention = bool(unplaced)
        chains = case["policy"].get("release_taskgraphs", False)
        for t in unplaced:
            tg = space.wl.get_task_graph(t.task_graph)
            if chains:
                # add the task together with its unplaced offered ancestors (a chain), parents first
                chain = []
                cur = t
                ok = True
                while True:
                    chain.append(cur)
                    ps = [p for p in tg.get_parents(cur)]
                    if not ps:
                        break
                    p = ps[0]
                    if p in offered and plan.get(p.unique_name) is None:
                        cur = p
                    else:
                        break
                chain.reverse()
                if tg.get_children(t):
                    continue  # only sinks carry a reward in whole-graph mode: an unplaced inner task is judged through its sink

                def add_chain(i, placed, lb):
                    if i == len(chain):
                        return []
                    c = chain[i]
                    ps = tg.get_parents(c)
                    lbs = lb
                    for p in ps:
                        if p in offered and plan.get(p.unique_name) is not None:
                            pp = plan[p.unique_name]
                            slow = max(us(s.runtime) for s in p.available_execution_strategies)
                            lbs = max(lbs, us(pp.placement_time) + slow + 1)
                        elif p.state == TaskState.RUNNING:
                            lbs = max(lbs, space.now + us(p.remaining_time) + 1)
                        elif p not in chain and not p.is_complete():
                            return None
                    for o in space.options(c, he):
                        if o[2] < lbs:
                            continue
                        if space.fits(placed, o):
                            slow = max(us(s.runtime) for s in c.available_execution_strategies)
                            r = add_chain(i + 1, placed + [o], o[2] + slow + 1)
                            if r is not None:
                                return [(c.unique_name, o)] + r
                    return None

                def find_addition():
                    return add_chain(0, placed_opts, 0)
            else:
                def find_addition():
                    if all(p.is_complete() for p in tg.get_parents(t)):
                        for o in space.options(t, he):
                            if space.fits(placed_opts, o):
                                return [(t.unique_name, o)]
                    return None
            added = find_addition()
            if added and partial:
                # is the miss explained by finding F12 (a running task reserves its worker for its full runtime from now)?
                # If the task can be added even under that reservation, it is something else.
                keep = space.running
                space.running = space.running_full
                try:
                    still = find_addition()
                finally:
                    space.running = keep
                if still:
                    added = still
                    tag = ".not_explained_by_full_runtime_reservation"
            if added:
                desc = [(n, [i for i, (w, _c) in enumerate(space.workers) if w == o[0]][0], us(o[1].runtime), o[2]) for n, o in added]
                got = {n: (None if p is None else (us(p.placement_time), us(p.execution_strategy.runtime))) for n, p in plan.items()}
                V.append(Violation("plan_not_maximal",
                                   f"{pname} left {t.unique_name} unplaced although {desc} (task, worker index, runtime, start) fits next to its plan {got}; case={case}",
                                   f"goodput.plan_not_maximal.{pname}" + tag))
                break
    res.nontrivial = contention
    res.classes = [f"policy={pname}", "contention" if contention else "everything_fits", "chains" if case.get("chains") else "task_by_task"]
    if retract and any(t.state == TaskState.SCHEDULED for t in offered):
        res.classes.append("retractable_earlier_plan")
    if partial:
        res.classes.append("partially_executed_running_task")
    return res


CHECKS = [
    Check("ilp_goodput", execute, strategy=lambda tier: instance_cases(("ILP",)), budget={"quick": 160, "thorough": 5000}),
    Check("ilp_goodput_retraction", execute, strategy=lambda tier: instance_cases(("ILP",), retract=True), budget={"quick": 128, "thorough": 3000}),
    Check("tetrisched_gurobi_maximal", execute, strategy=lambda tier: instance_cases(("TetriSched_Gurobi",)), budget={"quick": 160, "thorough": 5000}),
    Check("tetrisched_cplex_maximal", execute, strategy=lambda tier: instance_cases(("TetriSched_CPLEX",)), budget={"quick": 96, "thorough": 3000}),
    Check("partially_executed_running", execute, strategy=lambda tier: instance_cases(("ILP", "TetriSched_Gurobi"), partial=True), budget={"quick": 256, "thorough": 4000}),
]
