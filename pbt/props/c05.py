"""C05 - every simulation terminates, and feasible work is always finished."""
from hypothesis import strategies as st

from pbt import simchecks as J
from pbt import specs
from pbt.runner import Check
from pbt.simprop import sim_execute

PROPERTY = "C05"
LEVEL = "exploration"
RULE = (
    "Hypothesis WorldSpecs over all release policies (incl. closed loop, period 0/1 bursts), equal-time and zero-runtime "
    "tasks, all scheduler frequencies/delays/run-at-worker-free, feasible-by-construction and arbitrary demand, "
    "EDF/FIFO/LSF (+ planners); the harness proves non-termination deterministically (repeated step(0) without a handled "
    "event, or >= 30 scheduler invocations at one clock value with no task/ledger change) instead of using wall-clock "
    "timeouts. Non-trivial = a run with >= 2 tasks competing for a worker or a scheduler start pushed past its "
    "frequency; distinct by spec hash."
)
ASSUMPTIONS = [
    "scheduler runtime 0", "no preemption",
    "runs that exhaust the 4000-clock-step budget without a proven loop are inconclusive (counted, not violations)",
]


def worlds(tier):
    return specs.worlds(max_jobs=6, flags=specs.sim_flags(variance=False))


def zero_runtime_worlds(tier):
    return specs.worlds(max_jobs=4, zero_runtime=True, max_runtime=3, flags=specs.sim_flags(variance=False))


def extra(rec, res):
    if rec.abort and rec.abort[0] == "step_budget":
        res.discard = "step_budget_inconclusive"


CHECKS = [
    Check("termination", sim_execute([J.judge_c05], J.nontrivial_c05, extra=extra), strategy=worlds, budget={"quick": 3000, "thorough": 60000}),
    Check("zero_runtime", sim_execute([J.judge_c05], J.nontrivial_c05, extra=extra), strategy=zero_runtime_worlds, budget={"quick": 800, "thorough": 15000}),
    Check("scripted_termination", sim_execute([J.judge_c05], J.nontrivial_c05, extra=extra, max_steps=1500),
          strategy=lambda tier: specs.scripted_worlds(zero_runtime=True, max_runtime=3, flags=specs.sim_flags(variance=False)), budget={"quick": 600, "thorough": 20000}),
]
