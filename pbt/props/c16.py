"""C16 - simulated time is an exact, totally ordered integer quantity; event queue order."""
from hypothesis import strategies as st

from pbt import env
from pbt.runner import CaseResult, Check, Violation

env.setup()
from utils import EventTime  # noqa: E402

import simulator as sim  # noqa: E402
from workload import Job, Placement, Task  # noqa: E402

PROPERTY = "C16"
LEVEL = "exploration"
RULE = (
    "time: Hypothesis triples of (value, unit) with |microseconds| < 2^53 over all unit "
    "combinations (us/ms/s), biased to equal/adjacent magnitudes, negatives and -1; "
    "non-trivial = the operands use at least two different units. "
    "queue: Hypothesis operation lists (add/remove/re-time+reheapify/pop/peek/next-of-type) "
    "interpreted on a real EventQueue and on a reference multiset; non-trivial = a pop that "
    "follows a re-time or removal with >= 2 live events at the popped time; distinct by case hash."
)
ASSUMPTIONS = [
    "events of a task-carrying type always carry a task and other types never do (as in simulator.py)",
    "in-place re-timing is always followed by reheapify(), as every call site in simulator.py does",
]

UNITS = {"US": (EventTime.Unit.US, 1), "MS": (EventTime.Unit.MS, 1000), "S": (EventTime.Unit.S, 1000000)}
LIMIT = 2**53


def _tv():
    def build(unit, us):
        f = UNITS[unit][1]
        return [int(us / f) if us >= 0 else -int(-us / f), unit]

    base = st.one_of(
        st.integers(-LIMIT + 1, LIMIT - 1),
        st.integers(-5000, 5000),
        st.integers(-4, 4),  # neighbours of zero and of the 'invalid' marker -1 (hash(-1) is -2 in CPython)
        st.sampled_from([-2, -1, 0, 1, 999, 1000, 1001, 999999, 1000000, 1000001, -1000, -1000000]),
    )
    return st.builds(build, st.sampled_from(["US", "MS", "S"]), base)


def mk(tv):
    return EventTime(tv[0], UNITS[tv[1]][0])


def us(tv):
    return tv[0] * UNITS[tv[1]][1]


def finer(u1, u2):
    return u1 if UNITS[u1][1] <= UNITS[u2][1] else u2


def time_strategy(tier):
    return st.fixed_dictionaries({"a": _tv(), "b": _tv(), "c": _tv(), "k": st.integers(-1000, 1000)})


def exec_time(case):
    res = CaseResult()
    V = res.violations
    a, b, c, k = case["a"], case["b"], case["c"], case["k"]
    A, B, C = mk(a), mk(b), mk(c)
    ua, ub, uc = us(a), us(b), us(c)
    units = {a[1], b[1], c[1]}
    res.nontrivial = len(units) >= 2
    res.classes.append(f"units={len(units)}")
    if ua == ub or ub == uc:
        res.classes.append("equal_pair")
    if min(ua, ub, uc) < 0:
        res.classes.append("negative")

    def chk(clause, cond, detail):
        if not cond:
            V.append(Violation(clause, f"{detail} a={a} b={b} c={c} k={k}", f"time.{clause}"))

    try:
        for (X, ux, nx), (Y, uy, ny) in (((A, ua, "a"), (B, ub, "b")), ((B, ub, "b"), (C, uc, "c")), ((A, ua, "a"), (C, uc, "c")), ((A, ua, "a"), (A, ua, "a"))):
            chk("eq", (X == Y) == (ux == uy), f"{nx}=={ny} gives {X == Y}")
            chk("ne", (X != Y) == (ux != uy), f"{nx}!={ny} gives {X != Y}")
            chk("lt", (X < Y) == (ux < uy), f"{nx}<{ny} gives {X < Y}")
            chk("le", (X <= Y) == (ux <= uy), f"{nx}<={ny} gives {X <= Y}")
            chk("gt", (X > Y) == (ux > uy), f"{nx}>{ny} gives {X > Y}")
            chk("ge", (X >= Y) == (ux >= uy), f"{nx}>={ny} gives {X >= Y}")
            if ux == uy:
                chk("hash", hash(X) == hash(Y), f"equal times hash differently {hash(X)} {hash(Y)}")
        chk("hash_value", hash(A) == hash(ua), f"hash(a)={hash(A)} expected hash({ua})")
        # addition / subtraction
        if abs(ua + ub) < LIMIT:
            S = A + B
            chk("add", us_of(S) == ua + ub, f"a+b={S!r}")
            chk("add_unit", S.unit == UNITS[finer(a[1], b[1])][0], f"a+b unit {S.unit!r}")
            chk("add_commutes", us_of(B + A) == ua + ub, "b+a")
            chk("add_sub_roundtrip", (S - B) == A and us_of(S - B) == ua, f"(a+b)-b={(S - B)!r}")
            if abs(ua + ub + uc) < LIMIT:
                chk("add_assoc", us_of((A + B) + C) == us_of(A + (B + C)) == ua + ub + uc, "assoc")
        if abs(ua - ub) < LIMIT:
            D = A - B
            chk("sub", us_of(D) == ua - ub, f"a-b={D!r}")
            chk("sub_unit", D.unit == UNITS[finer(a[1], b[1])][0], f"a-b unit {D.unit!r}")
        if abs(ua * k) < LIMIT:
            M = A * k
            chk("mul", us_of(M) == ua * k and M.unit == A.unit, f"a*k={M!r}")
        # conversions
        for name, (unit, f) in UNITS.items():
            if f > UNITS[a[1]][1]:
                try:
                    r = A.to(unit)
                    chk("to_coarser_refused", False, f"a.to({name}) returned {r!r} instead of raising")
                except ValueError:
                    pass
            else:
                r = A.to(unit)
                chk("to_finer_exact", r.unit == unit and r.time * f == ua, f"a.to({name})={r!r}")
        # sorting agrees with integers
        got = [us_of(x) for x in sorted([A, B, C])]
        chk("sorted", got == sorted([ua, ub, uc]), f"sorted gives {got}")
        chk("max", us_of(max(A, B, C)) == max(ua, ub, uc), "max")
        chk("min", us_of(min(A, B, C)) == min(ua, ub, uc), "min")
        # markers
        chk("invalid_marker", EventTime.invalid().is_invalid() and not EventTime.zero().is_invalid(), "markers")
        if a[0] != -1:
            chk("is_invalid", not A.is_invalid(), "a.is_invalid()")
        chk("copy", us_of(A.__copy__()) == ua, "copy")
    except Exception as e:  # arithmetic on valid operands must not raise
        V.append(Violation("raises", f"{type(e).__name__}: {e} a={a} b={b} c={c} k={k}", f"time.raises.{type(e).__name__}"))
    return res


def us_of(t):
    return t.time * int(t.unit.value)


# ----------------------------------------------------------------------------- event queue
ET = sim.EventType
TASK_TYPES = [ET.TASK_CANCEL, ET.TASK_FINISHED, ET.TASK_RELEASE, ET.TASK_PREEMPT, ET.TASK_MIGRATION, ET.TASK_PLACEMENT]
PLAIN_TYPES = [ET.SIMULATOR_START, ET.EVICT_PROFILE, ET.TASK_GRAPH_RELEASE, ET.UPDATE_WORKLOAD, ET.LOAD_PROFILE,
               ET.SCHEDULER_START, ET.SCHEDULER_FINISHED, ET.SIMULATOR_END, ET.LOG_UTILIZATION]
ALL_TYPES = sorted(TASK_TYPES + PLAIN_TYPES, key=lambda t: t.value)


def queue_strategy(tier):
    t = st.one_of(st.integers(0, 6), st.integers(0, 40))
    unit = st.sampled_from(["US", "US", "US", "MS"])
    add = st.tuples(st.just("add"), st.integers(0, len(ALL_TYPES) - 1), t, unit, st.integers(0, 3), st.integers(0, 2))
    remove = st.tuples(st.just("remove"), st.integers(0, 50))
    retime = st.tuples(st.just("retime"), st.integers(0, 50), t, unit)
    pop = st.tuples(st.just("pop"))
    peek = st.tuples(st.just("peek"))
    nxt = st.tuples(st.just("next_of_type"), st.integers(0, len(ALL_TYPES) - 1))
    op = st.one_of(add, add, remove, retime, retime, pop, pop, pop, peek, nxt)
    # construction over rejection: a burst of insertions at few distinct times first, then edits/pops
    burst = st.tuples(st.lists(add, min_size=3, max_size=10), st.lists(op, min_size=4, max_size=40))
    # small queues whose events are re-timed beyond every time inserted so far (the Simulator pushes its SCHEDULER_START and
    # cached TASK_PLACEMENT events later in place), with insertions in between: one unit, early insertions, late re-timings
    early = st.integers(0, 12)
    late = st.one_of(st.integers(0, 12), st.integers(10, 60))
    add_e = st.tuples(st.just("add"), st.integers(0, len(ALL_TYPES) - 1), st.one_of(early, late), st.just("US"), st.integers(0, 3), st.integers(0, 2))
    retime_l = st.tuples(st.just("retime"), st.integers(0, 50), late, st.just("US"))
    op_s = st.one_of(add_e, add_e, retime_l, retime_l, pop, pop, peek, remove)
    small = st.tuples(st.lists(st.tuples(st.just("add"), st.integers(0, len(ALL_TYPES) - 1), early, st.just("US"), st.integers(0, 3), st.integers(0, 2)),
                               min_size=1, max_size=3), st.lists(op_s, min_size=3, max_size=14))
    return st.one_of(burst, small).map(lambda t: {"ops": [list(o) for o in t[0] + t[1]]})


def ref_key_lt(f, e):
    """Documented order: time, then event-type priority, then task name (same type, both with tasks)."""
    tf, te = us_of(f.time), us_of(e.time)
    if tf != te:
        return tf < te
    if f.event_type.value != e.event_type.value:
        return f.event_type.value < e.event_type.value
    if f.task is not None and e.task is not None:
        return f.task.unique_name < e.task.unique_name
    return False


def exec_queue(case):
    res = CaseResult()
    V = res.violations
    q = sim.EventQueue()
    live = []  # reference multiset (identity)
    job = Job(name="J")
    tasks = {}
    dirty = False  # a removal or re-time happened since the last pop
    saw_nontrivial = False
    n_pops = 0

    def task_for(i, g):
        key = (i, g)
        if key not in tasks:
            tasks[key] = Task(name=f"t{i}", task_graph=f"g{g}", job=job, deadline=EventTime(100, EventTime.Unit.US))
        return tasks[key]

    def bad(clause, detail):
        V.append(Violation(clause, f"{detail}; ops={case['ops']}", f"queue.{clause}"))

    try:
        for op in case["ops"]:
            kind = op[0]
            if kind == "add":
                et = ALL_TYPES[op[1]]
                tm = EventTime(op[2], UNITS[op[3]][0])
                if et in TASK_TYPES:
                    task = task_for(op[4], op[5])
                    placement = None
                    if et in (ET.TASK_PLACEMENT, ET.TASK_MIGRATION):
                        placement = Placement.create_task_placement(task=task, placement_time=tm, worker_pool_id="wp")
                    ev = sim.Event(event_type=et, time=tm, task=task, placement=placement)
                elif et == ET.TASK_GRAPH_RELEASE:
                    ev = sim.Event(event_type=et, time=tm, task_graph=f"g{op[5]}")
                else:
                    ev = sim.Event(event_type=et, time=tm)
                q.add_event(ev)
                live.append(ev)
            elif kind == "remove":
                if not live:
                    continue
                ev = live.pop(op[1] % len(live))
                q.remove_event(ev)
                dirty = True
            elif kind == "retime":
                if not live:
                    continue
                ev = live[op[1] % len(live)]
                ev._time = EventTime(op[2], UNITS[op[3]][0])
                q.reheapify()
                dirty = True
            elif kind == "pop":
                if not live:
                    continue
                ev = q.next()
                n_pops += 1
                if not any(ev is x for x in live):
                    bad("pop_unknown", f"pop returned an event that is not pending: {ev}")
                    break
                live = [x for x in live if x is not ev]
                smaller = [x for x in live if ref_key_lt(x, ev)]
                if smaller:
                    bad("pop_not_minimal", f"popped {ev} while {smaller[0]} was pending")
                ties = sum(1 for x in live if us_of(x.time) == us_of(ev.time))
                if dirty and ties >= 1:
                    saw_nontrivial = True
                dirty = False
            elif kind == "peek":
                ev = q.peek()
                if not live:
                    if ev is not None:
                        bad("peek_empty", f"peek on empty queue returned {ev}")
                    continue
                if ev is None or not any(ev is x for x in live):
                    bad("peek_unknown", f"peek returned {ev}")
                elif any(ref_key_lt(x, ev) for x in live):
                    bad("peek_not_minimal", f"peek returned {ev}")
            elif kind == "next_of_type":
                et = ALL_TYPES[op[1]]
                ev = q.get_next_event_of_type(et)
                cands = [x for x in live if x.event_type.value == et.value]
                if not cands:
                    if ev is not None:
                        bad("next_of_type_none", f"expected None, got {ev}")
                elif ev is None or not any(ev is x for x in cands):
                    bad("next_of_type_unknown", f"got {ev} for {et}")
                elif any(ref_key_lt(x, ev) for x in cands):
                    bad("next_of_type_not_minimal", f"got {ev} for {et}")
            if len(q) != len(live):
                bad("len", f"len(queue)={len(q)} but {len(live)} events are pending")
                break
        # drain: everything comes out, in non-decreasing time order
        last = None
        while live and not V:
            ev = q.next()
            if not any(ev is x for x in live):
                bad("drain_unknown", f"drain returned {ev}")
                break
            live = [x for x in live if x is not ev]
            if any(ref_key_lt(x, ev) for x in live):
                bad("drain_not_minimal", f"drained {ev} before a smaller pending event")
            if last is not None and us_of(ev.time) < last:
                bad("drain_time_decreases", f"time went back from {last} to {ev.time}")
            last = us_of(ev.time)
        if not V and len(q) != 0:
            bad("len_end", f"queue not empty at end: {len(q)}")
    except Exception as e:
        bad(f"raises.{type(e).__name__}", f"{type(e).__name__}: {e}")
    res.nontrivial = saw_nontrivial
    res.classes.append("pop_after_edit_with_tie" if saw_nontrivial else "plain")
    res.counters["pops"] = n_pops
    return res


CHECKS = [
    Check("time_algebra", case_timeout=60, timeout_is_violation=True, execute=exec_time, strategy=time_strategy, budget={"quick": 20000, "thorough": 1500000}),
    Check("event_queue", case_timeout=60, timeout_is_violation=True, execute=exec_queue, strategy=queue_strategy, budget={"quick": 8000, "thorough": 150000}),
]
