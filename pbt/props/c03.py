"""C03 - simulated execution takes exactly the chosen strategy's runtime; clock and event order."""
from hypothesis import strategies as st

from pbt import simchecks as J
from pbt import specs
from pbt.runner import Check
from pbt.simprop import sim_execute

PROPERTY = "C03"
LEVEL = "exploration"
RULE = (
    "Hypothesis WorldSpecs with equal runtimes / period-0 and period-1 releases (simultaneous finishes, releases, "
    "placements and scheduler events), all scheduler frequencies and delays, runtime variance 0/10/50; per task "
    "finish - start is compared with the runtime of the strategy given to Worker.place_task, Worker.remove_task "
    "time and the TASK_FINISHED row with the finish time; every deferral (TASK_NOT_READY / WORKER_NOT_READY) must be "
    "justified by the shadow history / shadow ledger. Non-trivial = some microsecond with >= 3 different event kinds "
    "among finish/release/placement/scheduler start/finish, or a deferral; distinct by spec hash. scripted_ms_sim: the generated plan-ahead "
    "policy on worlds whose strategies may state their runtime in milliseconds (remaining times of different units meet in the main loop)."
)
ASSUMPTIONS = ["scheduler runtime 0", "no preemption", "which of two equal-priority events goes first is not asserted"]


def clock_worlds(tier):
    return specs.worlds(max_jobs=6, max_runtime=4, contention=True, flags=specs.sim_flags(variance=True), ms_runtime=True)


CHECKS = [
    Check("greedy_sim", sim_execute([J.judge_c03], J.nontrivial_c03), strategy=clock_worlds, budget={"quick": 2500, "thorough": 50000}),
    Check("planner_sim", sim_execute([J.judge_c03], J.nontrivial_c03, planner=True, max_steps=1500), strategy=lambda tier: specs.planner_worlds(contention=True),
          budget={"quick": 128, "thorough": 4000}),
    Check("scripted_sim", sim_execute([J.judge_c03], J.nontrivial_c03, max_steps=1500), strategy=lambda tier: specs.scripted_worlds(contention=True, max_runtime=4, zero_runtime=True),
          budget={"quick": 600, "thorough": 30000}),
    # plan-ahead placements of strategies whose runtime is written in milliseconds, next to running microsecond tasks: remaining times
    # of different units are compared by the main loop before the first step normalises them (S03j)
    Check("scripted_ms_sim", sim_execute([J.judge_c03], J.nontrivial_c03, max_steps=1500),
          strategy=lambda tier: specs.scripted_worlds(contention=True, max_runtime=4, ms_runtime=True), budget={"quick": 600, "thorough": 20000}),
]
