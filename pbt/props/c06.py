"""C06 - task lifecycle is a legal state machine; cancellation is closed downstream."""
from hypothesis import strategies as st

from pbt import simchecks as J
from pbt import specs
from pbt.runner import Check
from pbt.simprop import sim_execute

PROPERTY = "C06"
LEVEL = "exploration"
RULE = (
    "Hypothesis WorldSpecs biased to cancellation: tight deadline variance with enforce_deadlines (EDF/FIFO), "
    "drop_skipped_tasks, infeasible strategies in the middle of DAGs, joins below cancelled nodes, conditional regions "
    "(nested), planners with retraction. Every successful Task.release/schedule/unschedule/start/finish/cancel is a "
    "transition of a reference automaton; at the end the cancelled set must be closed downstream. Non-trivial = a "
    "cancelled task with >= 1 descendant, or an unschedule; distinct by spec hash."
)
ASSUMPTIONS = ["scheduler runtime 0", "no preemption", "graph structure is read from the generated spec"]


@st.composite
def cancel_flags(draw):
    f = draw(specs.sim_flags(variance=False))
    f["drop_skipped_tasks"] = draw(st.sampled_from([True, True, False]))
    return f


def cancel_worlds(tier):
    return specs.worlds(
        policy=specs.greedy_policy(enforce=None), feasible=None, max_jobs=8, flags=cancel_flags(),
        deadline_variances=[[0, 0], [0, 0], [0, 50], [10, 10]], contention=True,
    )


CHECKS = [
    Check("greedy_sim", sim_execute([J.judge_c06], J.nontrivial_c06), strategy=cancel_worlds, budget={"quick": 2500, "thorough": 50000}),
    Check("planner_sim", sim_execute([J.judge_c06], J.nontrivial_c06, planner=True, max_steps=1500),
          strategy=lambda tier: specs.planner_worlds(max_jobs=4, flags=cancel_flags()), budget={"quick": 128, "thorough": 4000}),
    Check("scripted_sim", sim_execute([J.judge_c06], J.nontrivial_c06, max_steps=1500), strategy=lambda tier: specs.scripted_worlds(flags=cancel_flags()),
          budget={"quick": 500, "thorough": 30000}),
]
