"""C06 - task lifecycle is a legal state machine; cancellation is closed downstream."""
from hypothesis import strategies as st

from pbt import simchecks as J
from pbt import specs
from pbt.runner import Check
from pbt.simprop import sim_execute

PROPERTY = "C06"
LEVEL = "exploration"
RULE = (
    "Hypothesis WorldSpecs biased to cancellation: tight deadline variance with enforce_deadlines (EDF/FIFO), "
    "drop_skipped_tasks, infeasible strategies in the middle of DAGs, joins below cancelled nodes, conditional regions "
    "(nested), planners with retraction. Every successful Task.release/schedule/unschedule/start/finish/cancel is a "
    "transition of a reference automaton; at the end the cancelled set must be closed downstream. Non-trivial = a "
    "cancelled task with >= 1 descendant, or an unschedule; distinct by spec hash."
)
ASSUMPTIONS = ["scheduler runtime 0", "no preemption", "graph structure is read from the generated spec"]


@st.composite
def cancel_flags(draw):
    f = draw(specs.sim_flags(variance=False))
    f["drop_skipped_tasks"] = draw(st.sampled_from([True, True, False]))
    return f


def cancel_worlds(tier):
    return specs.worlds(
        policy=specs.greedy_policy(enforce=None), feasible=None, max_jobs=8, flags=cancel_flags(),
        deadline_variances=[[0, 0], [0, 0], [0, 50], [10, 10]], contention=True,
    )


# ----------------------------------------------------------------------------- the guards themselves (single Task)
LIFE_OPS = ["release", "schedule", "unschedule", "start", "run", "cancel"]


@st.composite
def lifecycle_cases(draw):
    n = draw(st.integers(1, 12))
    ops = [[draw(st.sampled_from(LIFE_OPS)), draw(st.integers(0, 3))] for _ in range(n)]
    return {"runtime": draw(st.integers(0, 4)), "ops": ops}


def exec_lifecycle(case):
    """One Task driven through generated release/schedule/unschedule/start/run/cancel calls against the documented
    guards: an allowed call moves the task as the reference automaton says, a forbidden one raises ValueError and changes
    nothing; COMPLETED and CANCELLED are final and a task is cancellable only before it runs."""
    from pbt import env  # noqa: F401
    from pbt.runner import CaseResult, Violation
    from utils import EventTime
    from workload import ExecutionStrategies, ExecutionStrategy, Job, Placement, Resource, Resources, Task, TaskState, WorkProfile

    US = EventTime.Unit.US
    res = CaseResult()
    strat = ExecutionStrategy(resources=Resources({Resource(name="CPU", _id="any"): 1}), batch_size=1, runtime=EventTime(case["runtime"], US))
    job = Job(name="J", profile=WorkProfile(name="P", execution_strategies=ExecutionStrategies([strat])))
    task = Task(name="T", task_graph="G", job=job, deadline=EventTime(1000, US), timestamp=0)
    model = "VIRTUAL"
    released = False
    ran = False
    now = 0
    seen = set()

    def bad(kind, detail):
        res.violations.append(Violation(kind, f"{detail}; case={case}", f"c06.task_api.{kind}"))

    for op, dt in case["ops"]:
        now += dt
        t = EventTime(now, US)
        before = task.state.name
        if before != model:
            bad("state_differs_from_automaton", f"before {op}: task is {before}, automaton says {model}")
            break
        if op == "release":
            allowed = model in ("VIRTUAL", "SCHEDULED")
            expect = "RELEASED" if model == "VIRTUAL" else model
            call = lambda: task.release(t)  # noqa: E731
        elif op == "schedule":
            allowed = model in ("VIRTUAL", "RELEASED", "SCHEDULED")
            expect = "SCHEDULED"
            pl = Placement.create_task_placement(task=task, placement_time=t, worker_pool_id="pool", execution_strategy=strat)
            call = lambda: task.schedule(t, pl)  # noqa: E731
        elif op == "unschedule":
            allowed = model == "SCHEDULED"
            expect = "RELEASED" if released else "VIRTUAL"
            call = lambda: task.unschedule(t)  # noqa: E731
        elif op == "start":
            if model == "SCHEDULED" and not released:
                continue  # starting a never-released task is outside the documented use (the Simulator never does it)
            allowed = model == "SCHEDULED"
            expect = "RUNNING"
            call = lambda: task.start(t)  # noqa: E731
        elif op == "run":
            # step through the whole remaining time, then finish - what Worker.step + the Simulator do
            if model != "RUNNING":
                allowed, expect = False, model
                call = lambda: task.finish(t)  # noqa: E731
            else:
                allowed, expect = True, "COMPLETED"

                def call():
                    rem = task.remaining_time
                    task.step(t, rem if rem > EventTime.zero() else EventTime(1, US))
                    task.finish(t + rem)
        else:
            allowed = model in ("VIRTUAL", "RELEASED", "SCHEDULED")
            expect = "CANCELLED"
            call = lambda: task.cancel(t)  # noqa: E731
        seen.add((model, op))
        try:
            call()
            raised = None
        except ValueError as e:
            raised = e
        except Exception as e:  # any other exception type is not the documented refusal
            bad("unexpected_exception", f"{op} from {model}: {type(e).__name__}: {e}")
            break
        after = task.state.name
        if allowed:
            if raised is not None:
                bad("refused_allowed_call", f"{op} from {model} raised {raised}")
                break
            if after != expect:
                bad("wrong_target_state", f"{op} from {model} (released={released}) led to {after}, expected {expect}")
                break
            model = after
            if op == "release":
                released = True
            if op == "start":
                ran = True
            if op == "run":
                now += case["runtime"]
        else:
            if raised is None:
                kind = "cancel_after_running" if op == "cancel" and ran else "final_state_left" if model in ("COMPLETED", "CANCELLED") and after != model else "forbidden_call_accepted"
                bad(kind, f"{op} from {model} was accepted and led to {after}")
                break
            if after != model:
                bad("refusal_changed_state", f"{op} from {model} raised but left the task {after}")
                break
    res.nontrivial = len({m for m, _ in seen}) >= 3
    res.classes = sorted({f"{m}:{o}" for m, o in seen})
    return res


CHECKS = [
    Check("greedy_sim", sim_execute([J.judge_c06], J.nontrivial_c06), strategy=cancel_worlds, budget={"quick": 2500, "thorough": 50000}),
    Check("planner_sim", sim_execute([J.judge_c06], J.nontrivial_c06, planner=True, max_steps=1500),
          strategy=lambda tier: specs.planner_worlds(max_jobs=4, flags=cancel_flags()), budget={"quick": 128, "thorough": 4000}),
    Check("scripted_sim", sim_execute([J.judge_c06], J.nontrivial_c06, max_steps=1500), strategy=lambda tier: specs.scripted_worlds(flags=cancel_flags()),
          budget={"quick": 1500, "thorough": 40000}),
    Check("task_guards", exec_lifecycle, strategy=lambda tier: lifecycle_cases(), budget={"quick": 4000, "thorough": 200000}, case_timeout=60),
]
