"""C01 - no worker is ever oversubscribed during a simulation."""
from hypothesis import strategies as st

from pbt import simchecks as J
from pbt import specs
from pbt.runner import Check
from pbt.simprop import sim_execute

PROPERTY = "C01"
LEVEL = "exploration"
RULE = (
    "Hypothesis WorldSpecs (1-3 pools x 1-3 workers, multi-type and two-instance resources, a quarter with an 'any'-id first instance, DAG workloads, "
    "all release policies, EDF/FIFO/LSF and the MILP planners with their flags) biased to contention "
    "(strategy demand close to worker capacity); every Worker.place_task/remove_task/load_profile/evict_profile "
    "on a live worker is replayed on a shadow ledger. Non-trivial = some worker held >= 2 tasks at once or a "
    "placement was deferred with WORKER_NOT_READY; distinct by spec hash."
)
ASSUMPTIONS = ["scheduler runtime 0 (as in 33 of the 34 bundled configs)", "no preemption (PREEMPTED rescheduling is unimplemented upstream)"]


def greedy_worlds(tier):
    @st.composite
    def s(draw):
        spec = draw(specs.worlds(contention=True, max_jobs=6, flags=specs.sim_flags(), zero_quantity=True))
        if draw(st.integers(0, 3)) == 0:
            # capacity vectors whose first instance of a type has the id 'any', next to a second instance of the type
            for p in spec["cluster"]:
                for w in p["workers"]:
                    w["any_first"] = True
                    if len({t for t, _q in w["resources"]}) == len(w["resources"]) and draw(st.booleans()):
                        t, q = w["resources"][0]
                        w["resources"].append([t, draw(st.integers(1, 2))])
            spec["any_capacity"] = True
        return spec

    return s()


CHECKS = [
    Check("greedy_sim", sim_execute([J.judge_c01], J.nontrivial_c01), strategy=greedy_worlds, budget={"quick": 1500, "thorough": 40000}),
    Check("planner_sim", sim_execute([J.judge_c01], J.nontrivial_c01, planner=True, max_steps=1500), strategy=lambda tier: specs.planner_worlds(contention=True),
          budget={"quick": 128, "thorough": 4000}),
    Check("scripted_sim", sim_execute([J.judge_c01], J.nontrivial_c01, max_steps=1500), strategy=lambda tier: specs.scripted_worlds(batching=True, contention=True),
          budget={"quick": 600, "thorough": 30000}),
]
