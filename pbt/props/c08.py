"""C08 - the CSV trace and end-of-run counters tell the truth about the run."""
from hypothesis import strategies as st

from pbt import simchecks as J
from pbt import specs
from pbt.runner import Check
from pbt.simprop import sim_execute

PROPERTY = "C08"
LEVEL = "exploration"
RULE = (
    "Hypothesis WorldSpecs that cancel (enforce_deadlines, drop_skipped_tasks, conditionals), miss deadlines (tight "
    "variance) and finish graphs (incl. closed loop); ground truth = final Task objects + monitor histories + shadow "
    "ledger; every TASK_RELEASE/PLACEMENT/FINISHED/CANCEL/MISSED_DEADLINE/TASK_GRAPH_*/SCHEDULER_*/SIMULATOR_END row is "
    "recomputed, then the rows are written to a file and parsed by data.CSVReader (half of the time after a companion trace "
    "read by the same reader), whose tasks/graphs are compared field by field. Non-trivial = a run with >= 1 of {cancelled task, missed deadline, finished graph}; distinct by spec hash."
)
ASSUMPTIONS = ["scheduler runtime 0", "no preemption", "runs that crash or livelock are judged by C05, not here"]


@st.composite
def flags(draw):
    f = draw(specs.sim_flags(variance=True))
    f["drop_skipped_tasks"] = draw(st.booleans())
    return f


def worlds(tier):
    return specs.worlds(policy=specs.greedy_policy(), max_jobs=6, flags=flags(), deadline_variances=[[0, 0], [0, 50], [10, 10], [50, 300]], contention=True)


def extra(rec, res):
    for k, v in getattr(rec, "_c08_classes", {}).items():
        if v:
            res.classes.append("has_" + k)


CHECKS = [
    Check("trace_truth", sim_execute([J.judge_c08], J.nontrivial_c08, extra=extra), strategy=worlds, budget={"quick": 2000, "thorough": 40000}),
    Check("scripted_trace", sim_execute([J.judge_c08], J.nontrivial_c08, extra=extra, max_steps=1500), strategy=lambda tier: specs.scripted_worlds(flags=flags()),
          budget={"quick": 500, "thorough": 20000}),
]
