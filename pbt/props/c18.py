"""C18 - the scheduling frontier offers exactly the work that may be decided now."""
from hypothesis import strategies as st

from pbt import env, specs
from pbt.runner import CaseResult, Check, Violation
from pbt.simprop import classes_of

env.setup()
from utils import EventTime  # noqa: E402
from workload import BranchPredictionPolicy, Placement, TaskState  # noqa: E402

from pbt import build, simrun  # noqa: E402

PROPERTY = "C18"
LEVEL = "exploration"
RULE = (
    "(a) reachable TaskGraph states built through the public API exactly as the simulator drives it (release / schedule / "
    "start / step / finish + notify_task_completion / cancel, composite run / finish_next / plan_join operations that reach deep "
    "states; Hypothesis op-lists over the DAG grammar incl. conditionals), "
    "queried after every step with every combination of lookahead {0,1,3,10,30}, retract on/off, release_taskgraphs on/off and "
    "branch policy ALL/WORST/BEST/MAX; (b) every offer made to EDF/FIFO/LSF inside generated end-to-end runs. Non-trivial = a "
    "graph state with >= 3 distinct task states / a run in which a policy was invoked with >= 1 offered task; distinct by case hash."
)
ASSUMPTIONS = ["no preemption (PREEMPTED/EVICTED states are not generated)", "RANDOM branch policy is excluded from the metamorphic (subset) clauses only"]

US = EventTime.Unit.US


def T(x):
    return EventTime(int(x), US)


def state_strategy(tier):
    @st.composite
    def s(draw):
        cluster = [{"name": "P0", "workers": [{"name": "W", "resources": [["CPU", 4], ["GPU", 4], ["MEM", 4]]}]}]
        n_prof = draw(st.integers(1, 3))
        profiles = [draw(specs.profile_for(cluster, f"pr{i}", feasible=True, max_runtime=6, zero_runtime=draw(st.integers(0, 5)) == 0)) for i in range(n_prof)]
        shape = draw(st.sampled_from([None, None, "fork"]))  # a third of the graphs are forks (a task with several children)
        jobs = draw(specs.job_graphs("G", n_prof, max_jobs=7, conditionals="heavy" if draw(st.booleans()) else True, force=shape))
        ops = draw(st.lists(st.tuples(st.sampled_from(["release", "schedule", "schedule_ahead", "start", "advance", "advance", "cancel", "cancel_first_child", "run", "run", "plan_join", "finish_next", "finish_next"]),
                                      st.integers(0, 20), st.integers(0, 6)), min_size=1, max_size=25))
        return {"seed": draw(st.integers(0, 1000)), "profiles": profiles, "jobs": jobs, "release_time": draw(st.sampled_from([0, 0, 5])),
                "ops": [list(o) for o in ops]}

    return s()


POLICIES = [BranchPredictionPolicy.ALL, BranchPredictionPolicy.WORST_CASE, BranchPredictionPolicy.BEST_CASE, BranchPredictionPolicy.MAXIMUM]


def exec_state(case):
    res = CaseResult()
    V = res.violations
    env.reset_case(case["seed"])
    profiles = [build.build_profile(p) for p in case["profiles"]]
    gspec = {"name": "G", "jobs": case["jobs"], "release": {"kind": "fixed", "period": 0, "n": 1, "start": case["release_time"]}, "deadline_variance": [0, 0]}
    jg = build.build_job_graph(gspec, profiles)
    tg = list(jg.generate_task_graphs(T(10**6)).values())[0]
    tasks = list(tg.get_nodes())
    name_of = {id(t): t.name for t in tasks}
    now = 0
    pending_release = []  # tasks returned by notify_task_completion, to be released
    max_states = 0

    def bad(clause, detail, tag=""):
        V.append(Violation(clause, f"{detail}; case={case}", f"frontier.{clause}{tag}"))

    def parents_done(t):
        ps = tg.get_parents(t)
        if not ps:
            return True
        d = [p.is_complete() for p in ps]
        return any(d) if t.terminal else all(d)

    def query_all():
        nonlocal max_states
        states = {t.state.name for t in tasks}
        max_states = max(max_states, len(states))
        time = T(now)
        base = {}
        for pol in POLICIES:
            for retract in (False, True):
                for rtg in (False, True):
                    prev = None
                    for L in (0, 1, 3, 10, 30):
                        try:
                            offer = tg.get_schedulable_tasks(time, T(L), False, retract, None, pol, 0.5, rtg)
                        except Exception as e:
                            bad(f"raises.{type(e).__name__}", f"get_schedulable_tasks(now={now}, L={L}, retract={retract}, rtg={rtg}, {pol.name}): {e}")
                            return False
                        ids = [id(t) for t in offer]
                        if len(ids) != len(set(ids)):
                            bad("duplicate_offer", f"now={now} L={L} retract={retract} rtg={rtg} {pol.name}: {[t.name for t in offer]}")
                            return False
                        oset = set(ids)
                        for t in tasks:
                            s = t.state
                            if s == TaskState.RELEASED and t.release_time <= time and id(t) not in oset:
                                bad("released_task_starved", f"{t.name} RELEASED at {t.release_time} not offered at now={now} L={L} retract={retract} rtg={rtg} {pol.name}")
                                return False
                            if id(t) in oset:
                                if s in (TaskState.COMPLETED, TaskState.CANCELLED):
                                    bad("finished_task_offered", f"{t.name} in {s.name} offered at now={now} L={L} retract={retract} rtg={rtg} {pol.name}")
                                    return False
                                if s == TaskState.RUNNING or (s == TaskState.SCHEDULED and not retract):
                                    bad("placed_task_offered", f"{t.name} in {s.name} offered with retract={retract} at now={now} L={L} rtg={rtg} {pol.name}")
                                    return False
                        if prev is not None and not prev <= oset:
                            missing = [name_of[i] for i in prev - oset]
                            bad("lookahead_not_monotone", f"offer(L) lost {missing} when L grew to {L} at now={now} retract={retract} rtg={rtg} {pol.name}")
                            return False
                        prev = oset
                        base[(pol, retract, rtg, L)] = oset
                    # release_taskgraphs only adds
            for retract in (False, True):
                for L in (0, 1, 3, 10, 30):
                    a, b = base.get((pol, retract, False, L)), base.get((pol, retract, True, L))
                    if a is not None and b is not None and not a <= b:
                        bad("release_taskgraphs_not_monotone", f"release_taskgraphs=True lost {[name_of[i] for i in a - b]} at now={now} L={L} retract={retract} {pol.name}")
                        return False
        # with lookahead 0 and no whole-graph release nothing with an incomplete predecessor is on offer
        for t in tg.get_schedulable_tasks(T(now)):
            if t.state == TaskState.VIRTUAL and not parents_done(t):
                ps = [(p.name, p.state.name, simrun.us(p.remaining_time)) for p in tg.get_parents(t)]
                zero = any(r == 0 for _n, s, r in ps if s in ("RUNNING", "RELEASED", "SCHEDULED", "VIRTUAL"))
                late = any(s == "SCHEDULED" for _n, s, r in ps)
                tag = ".zero_remaining_parent" if zero else (".scheduled_parent_expected_in_the_past" if late else "")
                bad("child_offered_before_parents_complete", f"{t.name} (VIRTUAL) offered at now={now} with lookahead 0; parents {ps}", tag)
                return False
        return True

    def do_release(t, time):
        t.release(T(time))

    try:
        # the simulator releases the sources at their release time
        srcs = [t for t in tg.get_releasable_tasks()]
        pending_release = list(srcs)
        ok = query_all()
        for op in case["ops"] if ok else []:
            kind, i, amt = op
            if kind == "finish_next":
                kind, amt = "advance", 10 ** 6  # up to the next completion (or the next pending release)
                if not any(t.state == TaskState.RUNNING for t in tasks):
                    continue
            if kind == "release":
                cand = [t for t in pending_release if t.state in (TaskState.VIRTUAL, TaskState.SCHEDULED)]
                if not cand:
                    continue
                t = cand[i % len(cand)]
                rt = max(now, simrun.us(t.release_time)) if not t.release_time.is_invalid() else now
                now = rt
                do_release(t, rt)
                pending_release.remove(t)
            elif kind in ("schedule", "schedule_ahead"):
                pool = [t for t in tasks if t.state == TaskState.RELEASED] if kind == "schedule" else [t for t in tasks if t.state in (TaskState.RELEASED, TaskState.VIRTUAL, TaskState.SCHEDULED)]
                if not pool:
                    continue
                t = pool[i % len(pool)]
                strategy = t.available_execution_strategies[amt % len(t.available_execution_strategies)]
                when = now + (amt if kind == "schedule_ahead" else 0)
                t.schedule(T(now), Placement.create_task_placement(task=t, placement_time=T(when), worker_pool_id="wp", execution_strategy=strategy))
            elif kind == "run":
                # the whole path of one task in one operation (deep states are rare otherwise): release what is due, place the
                # i-th runnable task now and start it
                for t in list(pending_release):
                    if t.state in (TaskState.VIRTUAL, TaskState.SCHEDULED) and (t.release_time.is_invalid() or simrun.us(t.release_time) <= now):
                        do_release(t, now)
                        pending_release.remove(t)
                cand = [t for t in tasks if t.state == TaskState.RELEASED and parents_done(t)]
                if not cand:
                    continue
                t = cand[i % len(cand)]
                strategy = t.available_execution_strategies[amt % len(t.available_execution_strategies)]
                t.schedule(T(now), Placement.create_task_placement(task=t, placement_time=T(now), worker_pool_id="wp", execution_strategy=strategy))
                t.start(T(now))
                res.counters["run_ops"] = res.counters.get("run_ops", 0) + 1
            elif kind == "plan_join":
                # a planner places a join (several parents) ahead of time, before its parents finish
                pool = [t for t in tasks if t.state == TaskState.VIRTUAL and len(tg.get_parents(t)) >= 2]
                if not pool:
                    continue
                t = pool[i % len(pool)]
                strategy = t.available_execution_strategies[amt % len(t.available_execution_strategies)]
                t.schedule(T(now), Placement.create_task_placement(task=t, placement_time=T(now + 1 + amt), worker_pool_id="wp", execution_strategy=strategy))
                res.counters["join_planned_ahead"] = res.counters.get("join_planned_ahead", 0) + 1
            elif kind == "start":
                cand = [t for t in tasks if t.state == TaskState.SCHEDULED and t.is_ready_to_run(tg) and not t.release_time.is_invalid() and simrun.us(t.release_time) <= now
                        and t not in pending_release]
                if not cand:
                    continue
                t = cand[i % len(cand)]
                now = max(now, simrun.us(t.expected_start_time))
                t.start(T(now))
            elif kind == "advance":
                # the simulator handles TASK_RELEASE events at max(release time, completion of the parent): no task
                # stays unreleased past that instant
                def flush():
                    for t in list(pending_release):
                        due = now if t.release_time.is_invalid() else max(now, simrun.us(t.release_time))
                        if due <= now and t.state in (TaskState.VIRTUAL, TaskState.SCHEDULED):
                            do_release(t, now)
                            pending_release.remove(t)

                flush()
                running = [t for t in tasks if t.state == TaskState.RUNNING]
                d = amt
                if running:
                    d = min(d, min(simrun.us(t.remaining_time) for t in running))
                future = [simrun.us(t.release_time) - now for t in pending_release if not t.release_time.is_invalid() and simrun.us(t.release_time) > now]
                if future:
                    d = min(d, min(future))
                finished = [t for t in running if t.step(T(now), T(d))]
                now += d
                for t in sorted(finished, key=lambda x: x.unique_name):
                    t.finish(T(now))
                    kids = tg.get_children(t)
                    before = {id(k): k.state for k in kids}
                    released, cancelled = tg.notify_task_completion(t, T(now))
                    rel = sorted(k.name for k in released)
                    if t.conditional:
                        positive = [k for k in kids if simrun.MON.initial_prob.get(k.unique_name, k.job.probability) > 0 and before[id(k)] != TaskState.CANCELLED]
                        if kids and len(released) != (1 if positive else 0):
                            bad("conditional_release_count", f"conditional {t.name} completed and released {rel} (children {[(k.name, k.job.probability) for k in kids]})")
                            break
                        if released and released[0].job.probability <= 0 and not case.get("resolved"):
                            bad("zero_probability_child_released", f"{t.name} released {rel[0]} with probability {released[0].job.probability}")
                            break
                    else:
                        exp = sorted(k.name for k in kids if before[id(k)] != TaskState.CANCELLED and (k.terminal or all(p.is_complete() for p in tg.get_parents(k))))
                        if rel != exp:
                            bad("release_on_completion", f"completion of {t.name} released {rel}, expected {exp}; children {[(k.name, k.terminal, [(p.name, p.state.name) for p in tg.get_parents(k)]) for k in kids]}")
                            break
                    for k in released:
                        if k not in pending_release:
                            pending_release.append(k)
                if V:
                    break
                flush()
            elif kind == "cancel_first_child":
                # a running fork whose first-listed live child is dropped (deadline enforcement / drop_skipped_tasks do this to
                # planned-ahead children): the other children must still be released when the fork completes
                def live_kids(t):
                    return sum(1 for k in tg.get_children(t) if k.state in (TaskState.VIRTUAL, TaskState.SCHEDULED))

                forks = [t for t in tasks if not t.conditional and live_kids(t) >= 2 and (
                    t.state == TaskState.RUNNING or (t.state in (TaskState.RELEASED, TaskState.SCHEDULED) and parents_done(t)
                                                      and not t.release_time.is_invalid() and simrun.us(t.release_time) <= now and t not in pending_release))]
                if not forks:
                    continue
                res.counters["fork_child_cancelled_while_fork_runs"] = res.counters.get("fork_child_cancelled_while_fork_runs", 0) + 1
                t = forks[i % len(forks)]
                # bring the fork to RUNNING the way the simulator would (schedule now, start now)
                if t.state == TaskState.RELEASED:
                    strategy = t.available_execution_strategies[amt % len(t.available_execution_strategies)]
                    t.schedule(T(now), Placement.create_task_placement(task=t, placement_time=T(now), worker_pool_id="wp", execution_strategy=strategy))
                if t.state == TaskState.SCHEDULED:
                    now = max(now, simrun.us(t.expected_start_time))
                    t.start(T(now))
                first = next(k for k in tg.get_children(t) if k.state in (TaskState.VIRTUAL, TaskState.SCHEDULED))
                for c in tg.cancel(first, T(now)):
                    if c in pending_release:
                        pending_release.remove(c)
            elif kind == "cancel":
                cand = [t for t in tasks if t.state in (TaskState.VIRTUAL, TaskState.RELEASED, TaskState.SCHEDULED)]
                if not cand:
                    continue
                # half of the time aim at a child of a task that is running: its siblings must still be released when that
                # task completes
                pref = [t for t in cand if any(p.state == TaskState.RUNNING for p in tg.get_parents(t))]
                t = pref[i % len(pref)] if pref and amt % 2 == 0 else cand[i % len(cand)]
                for c in tg.cancel(t, T(now)):
                    if c in pending_release:
                        pending_release.remove(c)
            if not query_all():
                break
    except Exception as e:
        import traceback

        tb = traceback.extract_tb(e.__traceback__)
        where = next((f"{f.filename.split('/')[-1]}:{f.name}" for f in reversed(tb) if "/verif/" not in f.filename), "harness")
        if where == "harness":
            raise
        bad(f"raises.{type(e).__name__}.{where}", f"{type(e).__name__}: {e}")
    res.nontrivial = max_states >= 3
    res.classes.append(f"distinct_states={max_states}")
    return res


# ----------------------------------------------------------------------------- (b) offers in real greedy runs
def run_worlds(tier):
    return specs.worlds(policy=specs.greedy_policy(), max_jobs=6, contention=True, flags=specs.sim_flags(variance=False), zero_runtime=False)


def run_worlds_zero(tier):
    return specs.worlds(policy=specs.greedy_policy(), max_jobs=5, max_runtime=3, zero_runtime=True, flags=specs.sim_flags(variance=False))


def exec_run(spec):
    rec = simrun.run_world(spec)
    res = CaseResult()
    res.classes = classes_of(rec)
    n_offers = 0
    for s in rec.mon.sched:
        info = s.get("offer_info")
        if info is None:
            continue
        n_offers += len(info)
        for key, state, ok, parents in info:
            if state in ("COMPLETED", "CANCELLED", "RUNNING", "SCHEDULED"):
                res.violations.append(Violation("bad_state_offered", f"{key} offered to {spec['policy']['name']} in state {state} at t={s['time']}", f"run.offered_{state.lower()}"))
            if not ok:
                zero = any(r == 0 for _n, st_, r in parents if st_ in ("RUNNING", "RELEASED", "SCHEDULED", "VIRTUAL"))
                late = any(st_ == "SCHEDULED" for _n, st_, _r in parents)
                tag = ".zero_remaining_parent" if zero else (".scheduled_parent_expected_in_the_past" if late else "")
                res.violations.append(
                    Violation("child_offered_before_parents_complete",
                              f"{key} ({state}) offered to {spec['policy']['name']} at t={s['time']} while parents are {parents}; flags={spec['flags']}",
                              "run.child_offered_before_parents_complete" + tag))
        if s.get("starved"):
            res.violations.append(Violation("released_task_starved", f"released tasks {s['starved']} not offered at t={s['time']}", "run.released_task_starved"))
    res.nontrivial = n_offers > 0
    res.counters = {"offers": n_offers, "invocations": len(rec.mon.sched)}
    # one violation per signature
    seen, out = set(), []
    for v in res.violations:
        if v.sig not in seen:
            seen.add(v.sig)
            out.append(v)
    res.violations = out
    return res


CHECKS = [
    Check("graph_states", case_timeout=60, timeout_is_violation=True, execute=exec_state, strategy=state_strategy, budget={"quick": 3000, "thorough": 80000}),
    Check("greedy_run_offers", exec_run, strategy=run_worlds, budget={"quick": 1500, "thorough": 40000}),
    Check("greedy_run_offers_zero_runtime", exec_run, strategy=run_worlds_zero, budget={"quick": 500, "thorough": 10000}),
]
