"""C19 - workload and cluster descriptions are instantiated faithfully."""
import json
import os

from hypothesis import strategies as st

from pbt import build, env, specs
from pbt.oracles import graphs as G
from pbt.runner import CaseResult, Check, Violation

env.setup()
import yaml  # noqa: E402
from utils import EventTime  # noqa: E402

from data import WorkerLoader, WorkloadLoader  # noqa: E402

PROPERTY = "C19"
LEVEL = "exploration"
RULE = (
    "Hypothesis description dicts (job graphs from the DAG grammar, 1-4 profiles with 1-3 strategies, typed / 'any' / "
    "specific-id resources, conditional/terminal/probability/slo fields, the five loader release policies, deadline variance, "
    "override flags, replication factor) dumped as YAML or JSON, loaded with data.WorkloadLoader / data.WorkerLoader (with and "
    "without flags) and compared field by field with the description (round-trip oracle); release times, graph copies and "
    "deadlines are recomputed independently. Closed-loop concurrency is checked on generated end-to-end runs. Non-trivial = a "
    "description with >= 2 graphs, or a non-fixed policy, or non-zero deadline variance; distinct by case hash."
)
ASSUMPTIONS = ["probability/variance values are exactly representable", "critical path = own brute-force longest path over slowest-strategy runtimes"]

US = EventTime.Unit.US


def us(t):
    return t.time * int(t.unit.value)


# ----------------------------------------------------------------------------- workload descriptions
def workload_strategy(tier):
    @st.composite
    def s(draw):
        n_prof = draw(st.integers(1, 4))
        profiles = []
        for i in range(n_prof):
            strategies = []
            for _ in range(draw(st.integers(1, 3))):
                res = {}
                for t in draw(st.permutations(specs.TYPES))[: draw(st.integers(1, 2))]:
                    rid = draw(st.sampled_from(["any", "any", "any", "x1", "x2"]))
                    res[f"{t}:{rid}"] = draw(st.integers(1, 4))
                strat = {"resource_requirements": res}
                if draw(st.integers(0, 5)) > 0:
                    strat["runtime"] = draw(st.integers(1, 30))
                if draw(st.booleans()):
                    strat["batch_size"] = draw(st.integers(1, 4))
                strategies.append(strat)
            prof = {"name": f"p{i}", "execution_strategies": strategies}
            if draw(st.integers(0, 3)) == 0:
                prof["loading_strategies"] = [{"resource_requirements": {"RAM:any": 1}, "runtime": draw(st.integers(0, 5)), "batch_size": 1}]
            profiles.append(prof)
        graphs = []
        for g in range(draw(st.integers(1, 3))):
            jobs = draw(specs.job_graphs(f"G{g}", n_prof, max_jobs=7, conditionals=True))
            nodes = []
            for j in jobs:
                node = {"name": j["name"], "work_profile": f"p{j['profile']}"}
                if j["children"] or draw(st.booleans()):
                    node["children"] = [jobs[c]["name"] for c in j["children"]]
                if j["conditional"]:
                    node["conditional"] = True
                if j["terminal"]:
                    node["terminal"] = True
                if j["probability"] != 1.0 or draw(st.integers(0, 5)) == 0:
                    node["probability"] = j["probability"]
                if draw(st.integers(0, 4)) == 0:
                    node["slo"] = draw(st.integers(1, 60))
                nodes.append(node)
            rel = draw(specs.releases(kinds=("fixed", "fixed", "periodic", "poisson", "gamma", "closed_loop"), max_n=5))
            gd = {"name": f"G{g}", "graph": nodes, "release_policy": rel["kind"]}
            if rel.get("start") or draw(st.booleans()):
                gd["start"] = rel.get("start", 0)
            if rel["kind"] in ("fixed", "periodic"):
                gd["period"] = max(1, rel["period"]) if rel["kind"] == "periodic" else rel["period"]
            if rel["kind"] in ("fixed", "poisson", "gamma", "closed_loop"):
                gd["invocations"] = rel["n"]
            if rel["kind"] in ("poisson", "gamma"):
                gd["rate"] = rel["rate"]
            if rel["kind"] == "gamma":
                gd["coefficient"] = rel["coefficient"]
            if rel["kind"] == "closed_loop":
                gd["concurrency"] = rel["concurrency"]
            if draw(st.booleans()):
                gd["deadline_variance"] = draw(st.sampled_from([[0, 0], [0, 50], [50, 300], [10, 10], [100, 100]]))
            graphs.append(gd)
        has_periodic = any(g["release_policy"] == "periodic" for g in graphs)
        fl = None
        if has_periodic or draw(st.booleans()):
            fl = {
                "loop_timeout": draw(st.sampled_from([50, 120, 300])) if has_periodic else None,
                "override_arrival_period": draw(st.sampled_from([0, 0, 0, 7])),
                "override_num_invocation": draw(st.sampled_from([0, 0, 0, 3])),
                "override_poisson_arrival_rate": draw(st.sampled_from([0.0, 0.0, 0.5])),
                "override_gamma_coefficient": draw(st.sampled_from([0.0, 0.0, 2.0])),
                "override_slo": draw(st.sampled_from([-1, -1, -1, 40])),
                "replication_factor": draw(st.sampled_from([1, 1, 1, 2])),
                "unique_work_profiles": draw(st.booleans()),
                "min_deadline": draw(st.sampled_from([0, 0, 10])),
                "max_deadline": draw(st.sampled_from([None, None, 80])),
            }
        return {"seed": draw(st.integers(0, 9999)), "format": draw(st.sampled_from(["yaml", "json"])), "doc": {"profiles": profiles, "graphs": graphs}, "flags": fl}

    return s()


def exec_workload(case):
    res = CaseResult()
    V = res.violations
    env.reset_case(case["seed"])
    doc = case["doc"]
    path = os.path.join(env.WORK_DIR, f"c19_{os.getpid()}.{case['format']}")
    with open(path, "w") as f:
        if case["format"] == "json":
            json.dump(doc, f)
        else:
            yaml.safe_dump(doc, f)
    fl = case["flags"]
    flags = None
    if fl is not None:
        over = {k: v for k, v in fl.items() if v is not None}
        flags = build.make_flags(random_seed=case["seed"], **over)

    def bad(clause, detail, tag=""):
        V.append(Violation(clause, f"{detail}; case={case}", f"loader.{clause}{tag}"))

    try:
        try:
            loader = WorkloadLoader(path, _flags=flags)
        except Exception as e:
            kinds = sorted({g["release_policy"] for g in doc["graphs"]})
            import traceback

            tb = traceback.extract_tb(e.__traceback__)
            where = next((f"{f.filename.split('/')[-1]}:{f.name}" for f in reversed(tb) if "/repo" in f.filename or "site-packages" not in f.filename and "/verif/" not in f.filename), "?")
            tag = ".periodic" if "periodic" in kinds else ""
            tag += ".with_flags" if flags is not None else ".without_flags"
            bad("loader_raises", f"WorkloadLoader raised {type(e).__name__}: {str(e)[:200]} at {where}", f".{type(e).__name__}{tag}")
            return res
        wl = loader.workload
        rep = fl["replication_factor"] if fl else 1
        prof_by_name = {p["name"]: p for p in doc["profiles"]}
        slo_override = fl["override_slo"] if fl and fl["override_slo"] > 0 else None
        horizon = fl["loop_timeout"] if fl and fl.get("loop_timeout") else None
        for gd in doc["graphs"]:
            names = [gd["name"]] if rep == 1 else [f"{gd['name']}_{i}" for i in range(1, rep + 1)]
            for gname in names:
                jg = wl.get_job_graph(gname)
                if jg is None:
                    bad("job_graph_missing", f"{gname} not loaded")
                    return res
                jobs = {j.name: j for j in jg.get_nodes()}
                if sorted(jobs) != sorted(n["name"] for n in gd["graph"]):
                    bad("job_set", f"{gname}: jobs {sorted(jobs)}")
                    return res
                slo_seen = None
                for node in gd["graph"]:
                    j = jobs[node["name"]]
                    exp_children = sorted(node.get("children", []))
                    got_children = sorted(c.name for c in jg.get_children(j))
                    if got_children != exp_children:
                        bad("children", f"{gname}.{node['name']}: children {got_children} expected {exp_children}")
                    if j.conditional != bool(node.get("conditional", False)) or j.terminal != bool(node.get("terminal", False)) or j.probability != node.get("probability", 1.0):
                        bad("job_flags", f"{gname}.{node['name']}: conditional={j.conditional} terminal={j.terminal} probability={j.probability} expected {node}")
                    exp_slo = slo_override if slo_override else node.get("slo")
                    got_slo = None if j.slo.is_invalid() else us(j.slo)
                    if got_slo != exp_slo:
                        leaked = exp_slo is None and got_slo is not None
                        bad("slo", f"{gname}.{node['name']}: slo {got_slo} expected {exp_slo}", ".leaks_to_later_nodes" if leaked else "")
                    # profile and strategies
                    pd = prof_by_name[node["work_profile"]]
                    got = [(us(s.runtime), s.batch_size, sorted((r.name, r.id, q) for r, q in s.resources.resources)) for s in j.profile.execution_strategies]
                    exp = [(s.get("runtime", 0), s.get("batch_size", 1), sorted((k.split(":")[0], k.split(":")[1], q) for k, q in s["resource_requirements"].items()))
                           for s in pd["execution_strategies"]]
                    if got != exp:
                        bad("strategies", f"{gname}.{node['name']}: strategies {got} expected {exp}")
                    lgot = [(us(s.runtime), s.batch_size) for s in j.profile.loading_strategies]
                    lexp = [(s.get("runtime", 0), s.get("batch_size", 1)) for s in pd.get("loading_strategies", [])]
                    if lgot != lexp:
                        bad("loading_strategies", f"{gname}.{node['name']}: {lgot} expected {lexp}")
                if V:
                    return res
                # ---- release times ------------------------------------------------------------------
                tgs = sorted((tg for n, tg in wl.task_graphs.items() if n.rsplit("@", 1)[0] == gname), key=lambda tg: int(tg.name.rsplit("@", 1)[1]))
                rels = [us(tg.release_time) for tg in tgs]
                kind = gd["release_policy"]
                start = gd.get("start", 0)
                n = gd.get("invocations")
                if fl and fl["override_num_invocation"] > 0 and kind == "fixed":
                    n = fl["override_num_invocation"]
                period = gd.get("period")
                if fl and fl["override_arrival_period"] > 0 and kind in ("fixed", "periodic"):
                    period = fl["override_arrival_period"]
                # ---- the policy object carries the described parameters (with the override flags applied) ------
                rp = jg.release_policy
                try:
                    if kind in ("poisson", "gamma"):
                        exp_rate = fl["override_poisson_arrival_rate"] if fl and fl["override_poisson_arrival_rate"] > 0 else gd["rate"]
                        if abs(rp.rate - exp_rate) > 1e-12:
                            bad("policy_parameter", f"{gname}: rate {rp.rate} expected {exp_rate} (described {gd['rate']}, flags {fl})", ".rate")
                    if kind == "gamma":
                        exp_c = fl["override_gamma_coefficient"] if fl and fl["override_gamma_coefficient"] > 0 else gd["coefficient"]
                        if abs(rp.coefficient - exp_c) > 1e-12:
                            bad("policy_parameter", f"{gname}: coefficient {rp.coefficient} expected {exp_c} (described {gd['coefficient']}, flags {fl})", ".coefficient")
                    if kind == "closed_loop" and rp.concurrency != gd["concurrency"]:
                        bad("policy_parameter", f"{gname}: concurrency {rp.concurrency} expected {gd['concurrency']}", ".concurrency")
                    if kind in ("fixed", "poisson", "gamma", "closed_loop") and rp.num_invocations != n:
                        bad("policy_parameter", f"{gname}: num_invocations {rp.num_invocations} expected {n}", ".num_invocations")
                    if kind in ("fixed", "periodic") and us(rp.period) != period:
                        bad("policy_parameter", f"{gname}: period {rp.period} expected {period}", ".period")
                except ValueError as e:
                    bad("policy_parameter", f"{gname}: reading the parameters of a {kind} policy raised {e}", ".raises")
                if kind == "fixed":
                    exp = [start + i * period for i in range(n)]
                    if rels != exp:
                        bad("release_times_fixed", f"{gname}: releases {rels} expected {exp}")
                elif kind == "periodic":
                    exp = list(range(start, horizon, period))
                    if rels != exp:
                        bad("release_times_periodic", f"{gname}: releases {rels} expected {exp}")
                elif kind in ("poisson", "gamma"):
                    if len(rels) != n or (rels and rels[0] != start) or any(b < a for a, b in zip(rels, rels[1:])):
                        bad("release_times_" + kind, f"{gname}: releases {rels} for n={n} start={start}")
                elif kind == "closed_loop":
                    exp = [start] * min(gd["concurrency"], n)
                    if rels != exp:
                        bad("release_times_closed_loop", f"{gname}: initial releases {rels} expected {exp}")
                    else:
                        # drive the loop the way the simulator does: every completion instantiates the next invocation,
                        # released 1us later, until N exist; the follow-ups are judged like the initial ones below
                        in_flight = list(tgs)
                        clock = start
                        while in_flight and len(tgs) <= n + 1:
                            clock += 7
                            done = in_flight.pop(0)
                            before = set(wl.task_graphs)
                            wl.notify_task_graph_completion(done, build.T(clock))
                            fresh = [wl.task_graphs[k] for k in wl.task_graphs if k not in before]
                            if len(fresh) > 1:
                                bad("closed_loop_followups", f"{gname}: one completion instantiated {len(fresh)} invocations")
                            for tg in fresh:
                                if us(tg.release_time) != clock + 1:
                                    bad("closed_loop_followup_release", f"{tg.name}: released at {us(tg.release_time)} after a completion at {clock}")
                                tgs.append(tg)
                                in_flight.append(tg)
                            if len(in_flight) > gd["concurrency"]:
                                bad("closed_loop_concurrency", f"{gname}: {len(in_flight)} invocations in flight, concurrency {gd['concurrency']}")
                                break
                        if len(tgs) != n:
                            bad("closed_loop_total", f"{gname}: {len(tgs)} invocations after driving the loop, {n} declared")
                        if len(tgs) > min(gd["concurrency"], n):
                            res.counters["closed_loop_followups_checked"] = res.counters.get("closed_loop_followups_checked", 0) + len(tgs) - min(gd["concurrency"], n)
                # ---- every invocation is a fresh isomorphic copy -----------------------------------
                edges = sorted((node["name"], c) for node in gd["graph"] for c in node.get("children", []))
                all_ids = set()
                for tg in tgs:
                    tn = sorted(t.name for t in tg.get_nodes())
                    te = sorted((t.name, c.name) for t in tg.get_nodes() for c in tg.get_children(t))
                    if tn != sorted(jobs) or te != edges:
                        bad("task_graph_not_isomorphic", f"{tg.name}: nodes {tn} edges {te}")
                        break
                    for t in tg.get_nodes():
                        if t.id in all_ids:
                            bad("task_id_reused", f"{tg.name}: task id {t.id} appears twice")
                        all_ids.add(t.id)
                        src = not tg.get_parents(t)
                        if src and us(t.release_time) != us(tg.release_time):
                            bad("source_release_time", f"{tg.name}.{t.name}: {t.release_time}")
                # ---- deadlines ----------------------------------------------------------------------
                idx = {node["name"]: i for i, node in enumerate(gd["graph"])}
                gedges = [(idx[a], idx[b]) for a, b in edges]
                wts = []
                for node in gd["graph"]:
                    pd = prof_by_name[node["work_profile"]]
                    wts.append(max(s.get("runtime", 0) for s in pd["execution_strategies"]))
                paths = G.all_source_sink_paths(len(idx), gedges)
                # the loader weighs zero-probability jobs as 0 when looking for the longest path
                eff = [w if gd["graph"][i].get("probability", 1.0) > 0 else 0 for i, w in enumerate(wts)]
                best = max(sum(eff[u] for u in p) for p in paths)
                cands = set()
                for p in paths:
                    if sum(eff[u] for u in p) == best:
                        # zero-weight jobs (runtime 0, or probability 0) at either end make shorter stretches of the path
                        # equally "longest": the loader may sum over any of them (C17/C19 speak of positive weights)
                        for a in range(len(p)):
                            for z in range(a + 1, len(p) + 1):
                                q = p[a:z]
                                if sum(eff[u] for u in q) != best:
                                    continue
                                tot = 0
                                for u in q:
                                    node = gd["graph"][u]
                                    s_ = slo_override if slo_override else node.get("slo")
                                    tot += s_ if s_ is not None else wts[u]
                                cands.add(tot)
                uses_slo = bool(slo_override) or any("slo" in node for node in gd["graph"])
                if uses_slo and any(w == 0 for w in eff):
                    # zero-weight nodes make the critical path ambiguous (any sub-path is "longest"): the SLO sum is then
                    # not determined by the description; C17/C19 speak of positive weights only.
                    res.classes.append("degenerate_critical_path_skipped")
                    continue
                dv = gd.get("deadline_variance", [0, 0])
                lo_b = fl["min_deadline"] if fl else 0
                hi_b = fl["max_deadline"] if fl and fl.get("max_deadline") else None
                for tg in tgs:
                    d = {us(t.deadline) for t in tg.get_nodes()}
                    if len(d) != 1:
                        bad("deadline_not_uniform", f"{tg.name}: deadlines {d}")
                        break
                    d = d.pop() - us(tg.release_time)
                    ok = False
                    for base in cands:
                        lo = base * min(dv) / 100.0
                        hi = base * max(dv) / 100.0
                        lo = max(lo_b, min(hi_b, lo) if hi_b is not None else lo)
                        hi = max(lo_b, min(hi_b, hi) if hi_b is not None else hi)
                        if base + lo - 0.5001 <= d <= base + hi + 0.5001:
                            ok = True
                    if not ok:
                        has_slo = any("slo" in node for node in gd["graph"]) and not slo_override
                        bad("deadline", f"{tg.name}: deadline - release = {d}, base candidates {sorted(cands)} (critical path weights {wts}), variance {dv}, bounds ({lo_b},{hi_b})",
                            ".graph_with_slo" if has_slo else "")
                        break
                if V:
                    return res
        res.nontrivial = len(doc["graphs"]) >= 2 or any(g["release_policy"] != "fixed" for g in doc["graphs"]) or any(g.get("deadline_variance", [0, 0]) != [0, 0] for g in doc["graphs"])
        res.classes = sorted({"release=" + g["release_policy"] for g in doc["graphs"]}) + (["with_flags"] if flags is not None else ["without_flags"]) + [case["format"]]
        if rep > 1:
            res.classes.append("replicated")
    finally:
        try:
            os.remove(path)
        except OSError:
            pass
    return res


# ----------------------------------------------------------------------------- worker descriptions
def worker_strategy(tier):
    @st.composite
    def s(draw):
        pools = []
        for p in range(draw(st.integers(1, 3))):
            workers = []
            for w in range(draw(st.integers(1, 3))):
                rs = []
                used = set()
                for _ in range(draw(st.integers(1, 4))):
                    t = draw(st.sampled_from(specs.TYPES + ["Slot"]))
                    rid = draw(st.sampled_from([None, None, "a", "b"]))
                    if rid is not None and (t, rid) in used:
                        continue
                    used.add((t, rid))
                    rs.append({"name": t if rid is None else f"{t}:{rid}", "quantity": draw(st.integers(1, 64))})
                workers.append({"name": f"P{p}W{w}", "resources": rs})
            pools.append({"name": f"P{p}", "workers": workers})
        return {"seed": draw(st.integers(0, 999)), "format": draw(st.sampled_from(["yaml", "json"])), "doc": pools, "with_flags": draw(st.booleans())}

    return s()


def exec_workers(case):
    res = CaseResult()
    V = res.violations
    env.reset_case(case["seed"])
    path = os.path.join(env.WORK_DIR, f"c19w_{os.getpid()}.{case['format']}")
    with open(path, "w") as f:
        if case["format"] == "json":
            json.dump(case["doc"], f)
        else:
            yaml.safe_dump(case["doc"], f)
    try:
        try:
            wl = WorkerLoader(path, _flags=build.make_flags() if case["with_flags"] else None)
        except Exception as e:
            V.append(Violation("worker_loader_raises", f"{type(e).__name__}: {e}; case={case}", f"loader.worker_loader_raises.{type(e).__name__}"))
            return res
        pools = list(wl.get_worker_pools().worker_pools)
        if [p.name for p in pools] != [p["name"] for p in case["doc"]]:
            V.append(Violation("pools", f"pools {[p.name for p in pools]}; case={case}", "loader.pools"))
            return res
        ids = set()
        for p, pd in zip(pools, case["doc"]):
            if [w.name for w in p.workers] != [w["name"] for w in pd["workers"]]:
                V.append(Violation("workers", f"{p.name}: workers {[w.name for w in p.workers]}; case={case}", "loader.workers"))
                return res
            for w, wd in zip(p.workers, pd["workers"]):
                got = [(r.name, r.id, q) for r, q in w.resources.resources]
                exp = [(r["name"].split(":")[0], r["name"].split(":")[1] if ":" in r["name"] else None, r["quantity"]) for r in wd["resources"]]
                ok = len(got) == len(exp) and all(g[0] == e[0] and g[2] == e[2] and (e[1] is None or g[1] == e[1]) for g, e in zip(got, exp))
                auto = [g[1] for g, e in zip(got, exp) if e[1] is None]
                if not ok or len(set(auto)) != len(auto) or any(a in ids for a in auto):
                    V.append(Violation("worker_resources", f"{w.name}: resources {got} expected {exp}; case={case}", "loader.worker_resources"))
                    return res
                ids.update(auto)
                if w.id in ids:
                    V.append(Violation("worker_id_reused", f"{w.name}", "loader.worker_id_reused"))
                ids.add(w.id)
        res.nontrivial = sum(len(p["workers"]) for p in case["doc"]) >= 2
        res.classes = [case["format"]]
    finally:
        try:
            os.remove(path)
        except OSError:
            pass
    return res


# ----------------------------------------------------------------------------- closed loop end-to-end
def closed_loop_worlds(tier):
    return specs.worlds(policy=specs.greedy_policy(enforce=False), feasible=True, max_jobs=4, max_graphs=2, release_kinds=("closed_loop",),
                        flags=specs.sim_flags(allow_timeout=False, allow_drop=False, variance=False), max_releases=5)


def exec_closed_loop(spec):
    from pbt import simrun
    from pbt.simprop import classes_of

    rec = simrun.run_world(spec)
    res = CaseResult()
    res.classes = classes_of(rec)
    if rec.abort or rec.exception:
        res.discard = "run_did_not_complete(C05)"
        return res
    # in-flight graphs at every instant, from the monitor's own release/finish/cancel history
    for g in spec["graphs"]:
        conc, n = g["release"]["concurrency"], g["release"]["n"]
        names = [name for name in rec.graphs if name.split("@")[0] == g["name"]]
        if len(names) != n:
            res.violations.append(Violation("closed_loop_total", f"{g['name']}: {len(names)} invocations instantiated, {n} declared; flags={spec['flags']}", "loader.closed_loop_total"))
            continue
        events = []
        for name in names:
            tg = rec.graphs[name]
            start = min(us(t.release_time) for t in tg.get_nodes() if not tg.get_parents(t))
            sinks = [t for t in tg.get_nodes() if not tg.get_children(t)]
            if all(t.state.name == "COMPLETED" for t in sinks):
                end = max(us(t.completion_time) for t in sinks)
            elif any(t.state.name == "CANCELLED" for t in sinks):
                end = min(us(t.cancellation_time) for t in sinks if t.state.name == "CANCELLED")
            else:
                end = None
            events.append((start, 1))
            if end is not None:
                events.append((end + 1, -1))  # the replacement is released one microsecond after the completion
        events.sort(key=lambda e: (e[0], e[1]))
        cur = mx = 0
        for _t, d in events:
            cur += d
            mx = max(mx, cur)
        if mx > conc:
            res.violations.append(Violation("closed_loop_concurrency", f"{g['name']}: {mx} invocations in flight, concurrency {conc}; flags={spec['flags']}", "loader.closed_loop_concurrency"))
    res.nontrivial = any(g["release"]["n"] > g["release"]["concurrency"] for g in spec["graphs"])
    return res


CHECKS = [
    Check("workload_roundtrip", exec_workload, strategy=workload_strategy, budget={"quick": 1500, "thorough": 40000}),
    Check("worker_roundtrip", exec_workers, strategy=worker_strategy, budget={"quick": 600, "thorough": 10000}),
    Check("closed_loop_run", exec_closed_loop, strategy=closed_loop_worlds, budget={"quick": 600, "thorough": 15000}),
]
