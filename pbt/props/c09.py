"""C09 - runs are reproducible from the random seed (two fresh main.py processes)."""
import json
import os
import shutil
import subprocess

from hypothesis import strategies as st

from pbt import env, specs
from pbt.runner import CaseResult, Check, Violation

env.setup()
import yaml  # noqa: E402

PROPERTY = "C09"
LEVEL = "exploration"
RULE = (
    "Hypothesis WorldSpecs rendered to real workload/worker YAML files using the randomness sources one by one and combined "
    "(deadline variance, poisson/gamma arrivals, conditionals, runtime variance), >= 2 resource types per pool, EDF/FIFO/LSF "
    "with --scheduler_runtime=0; each spec is run by two fresh `python main.py --random_seed=N` processes with different "
    "PYTHONHASHSEED, working directories and log paths (also with --replication_factor 2-3 and --log_file_mode=append); the CSV traces are compared line by line after masking input_flag rows "
    "and the wall-clock field of SCHEDULER_FINISHED. Non-trivial = >= 1 active randomness source and a trace of >= 30 rows; "
    "distinct by case hash."
)
ASSUMPTIONS = ["deterministic policies only (EDF/FIFO/LSF), fixed scheduler runtime 0", "both processes run the same interpreter on the same machine"]

PY = "/venv/bin/python"


def spec_strategy(tier):
    @st.composite
    def s(draw):
        spec = draw(
            specs.worlds(
                policy=specs.greedy_policy(enforce=None), feasible=True, max_jobs=6, max_graphs=3, conditionals="heavy" if draw(st.booleans()) else True,
                release_kinds=("fixed", "poisson", "gamma", "closed_loop", "poisson", "gamma"),
                flags=specs.sim_flags(allow_timeout=False), deadline_variances=[[0, 0], [0, 50], [50, 300]], max_releases=4,
            )
        )
        # at least two resource types in every pool (row order of utilisation logging)
        for p in spec["cluster"]:
            types = {t for w in p["workers"] for t, _q in w["resources"]}
            if len(types) < 2:
                missing = [t for t in specs.TYPES if t not in types][0]
                p["workers"][0]["resources"].append([missing, 1])
        spec["hashseeds"] = [draw(st.integers(0, 100)), draw(st.integers(101, 1000))]
        spec["log_file_mode"] = draw(st.sampled_from(["write", "write", "append"]))  # each run has a fresh directory either way
        spec["replication_factor"] = draw(st.sampled_from([1, 1, 1, 2, 3]))  # replicas of a graph share its release policy object
        return spec

    return s()


def render(spec, d):
    profiles = []
    for p in spec["profiles"]:
        profiles.append({
            "name": p["name"],
            "execution_strategies": [
                {"batch_size": s.get("batch", 1), "runtime": s["runtime"], "resource_requirements": {f"{t}:any": q for t, q in s["resources"].items()}}
                for s in p["strategies"]
            ],
        })
    graphs = []
    for g in spec["graphs"]:
        nodes = []
        for j in g["jobs"]:
            node = {"name": j["name"], "work_profile": spec["profiles"][j["profile"]]["name"], "children": [g["jobs"][c]["name"] for c in j["children"]]}
            if j.get("conditional"):
                node["conditional"] = True
            if j.get("terminal"):
                node["terminal"] = True
            if j.get("probability", 1.0) != 1.0:
                node["probability"] = j["probability"]
            nodes.append(node)
        rel = g["release"]
        gd = {"name": g["name"], "graph": nodes, "release_policy": rel["kind"], "start": rel.get("start", 0), "deadline_variance": g["deadline_variance"]}
        for k_spec, k_doc in (("period", "period"), ("n", "invocations"), ("rate", "rate"), ("coefficient", "coefficient"), ("concurrency", "concurrency")):
            if k_spec in rel:
                gd[k_doc] = rel[k_spec]
        graphs.append(gd)
    with open(os.path.join(d, "workload.yaml"), "w") as f:
        yaml.safe_dump({"profiles": profiles, "graphs": graphs}, f)
    pools = [{"name": p["name"], "workers": [{"name": w["name"], "resources": [{"name": t, "quantity": q} for t, q in w["resources"]]} for w in p["workers"]]}
             for p in spec["cluster"]]
    with open(os.path.join(d, "workers.yaml"), "w") as f:
        yaml.safe_dump(pools, f)
    fl, pol = spec["flags"], spec["policy"]
    args = [
        "--execution_mode=yaml", f"--workload_profile_path={os.path.join(d, 'workload.yaml')}", f"--worker_profile_path={os.path.join(d, 'workers.yaml')}",
        f"--scheduler={pol['name']}", "--scheduler_runtime=0", f"--random_seed={spec['seed']}", f"--scheduler_frequency={fl['scheduler_frequency']}",
        f"--scheduler_delay={fl['scheduler_delay']}", f"--runtime_variance={fl['runtime_variance']}", "--log_level=info",
    ]
    if spec.get("log_file_mode", "write") != "write":
        args.append(f"--log_file_mode={spec['log_file_mode']}")
    if spec.get("replication_factor", 1) > 1:
        args.append(f"--replication_factor={spec['replication_factor']}")
    if pol.get("enforce_deadlines"):
        args.append("--enforce_deadlines")
    if fl.get("drop_skipped_tasks"):
        args.append("--drop_skipped_tasks")
    if fl.get("run_at_worker_free"):
        args.append("--scheduler_run_at_worker_free")
    if fl.get("resolve_conditionals_at_submission"):
        args.append("--resolve_conditionals_at_submission")
    if fl.get("loop_timeout") is not None:
        args.append(f"--loop_timeout={fl['loop_timeout']}")
    return args


def mask(lines):
    out = []
    for ln in lines:
        if ln.startswith("input_flag,"):
            continue
        p = ln.rstrip("\n").split(",")
        if len(p) >= 6 and p[1] == "SCHEDULER_FINISHED":
            p[5] = "<wall>"
        out.append(",".join(p))
    return out


def execute(spec):
    res = CaseResult()
    base = os.path.join(env.WORK_DIR, f"c09_{os.getpid()}")
    shutil.rmtree(base, ignore_errors=True)
    traces = []
    try:
        outs = []
        for i, hs in enumerate(spec["hashseeds"]):
            d = os.path.join(base, f"run{i}", "x" * (i + 1))
            os.makedirs(d)
            args = render(spec, d)
            envp = dict(os.environ, PYTHONHASHSEED=str(hs), PYTHONPATH="")
            envp.pop("VERIF_REPO", None)
            p = subprocess.run([PY, os.path.join(env.REPO, "main.py")] + args + [f"--log_dir={d}", "--log=run.log", "--csv=run.csv"], cwd=d, env=envp,
                               capture_output=True, text=True, timeout=120)
            csv = os.path.join(d, "run.csv")
            lines = open(csv).read().splitlines() if os.path.exists(csv) else []
            outs.append((p.returncode, p.stderr[-400:]))
            traces.append(mask(lines))
        sources = []
        if any(g["deadline_variance"] != [0, 0] for g in spec["graphs"]):
            sources.append("deadline_variance")
        if any(g["release"]["kind"] in ("poisson", "gamma") for g in spec["graphs"]):
            sources.append("random_arrivals")
        if any(j.get("conditional") for g in spec["graphs"] for j in g["jobs"]):
            sources.append("conditionals")
        if spec["flags"]["runtime_variance"]:
            sources.append("runtime_variance")
        res.classes = list(sources) or ["no_randomness"]
        if spec.get("replication_factor", 1) > 1:
            res.classes.append("replicated_graphs")
        if outs[0][0] != outs[1][0]:
            res.violations.append(Violation("exit_status_differs", f"exit codes {outs}; spec={json.dumps(spec)[:1500]}", "repro.exit_status_differs"))
            return res
        if outs[0][0] != 0:
            res.discard = "main_py_failed(C05)"
            res.classes.append("main_failed")
            return res
        a, b = traces
        if a != b:
            k = next((i for i in range(min(len(a), len(b))) if a[i] != b[i]), min(len(a), len(b)))
            ra, rb = (a[k] if k < len(a) else "<eof>"), (b[k] if k < len(b) else "<eof>")
            kind = ra.split(",")[1] if "," in ra else "?"
            tag = kind
            if sorted(a) == sorted(b):
                tag += ".same_rows_different_order"
            elif "random_arrivals" in sources and len(sources) >= 1:
                # are the release times of the graphs different?
                ga = [r for r in a if ",TASK_GRAPH_RELEASE," in r]
                gb = [r for r in b if ",TASK_GRAPH_RELEASE," in r]
                if ga != gb:
                    tag = "TASK_GRAPH_RELEASE.arrival_times_differ"
            res.violations.append(
                Violation("traces_differ", f"first difference at row {k}: {ra!r} vs {rb!r} (PYTHONHASHSEED {spec['hashseeds']}); sources={sources}; spec={json.dumps(spec)[:1800]}",
                          f"repro.traces_differ.{tag}"))
        res.nontrivial = bool(sources) and len(a) >= 30
        res.counters = {"rows_compared": len(a)}
    finally:
        shutil.rmtree(base, ignore_errors=True)
    return res


# ----------------------------------------------------------------------------- release policies through the API
def policy_strategy(tier):
    pol = st.fixed_dictionaries({
        "kind": st.sampled_from(["poisson", "gamma", "fixed_gamma"]), "rate": st.sampled_from([0.05, 0.2, 1.0]), "base_rate": st.sampled_from([0.01, 0.1]),
        "coefficient": st.sampled_from([0.5, 1.0, 2.0]), "n": st.integers(2, 6), "start": st.sampled_from([0, 5, 17]), "calls": st.sampled_from([1, 2, 3]),
    })
    return st.fixed_dictionaries({"seed": st.integers(0, 2**20), "policies": st.lists(pol, min_size=1, max_size=4),
                                  "hashseeds": st.tuples(st.integers(0, 100), st.integers(101, 1000)).map(list)})


def exec_policies(case):
    """Every sampling release policy built without an explicit rng_seed must take its randomness from the seeded global
    generator: two fresh processes that call random.seed(N) first produce the same release times."""
    res = CaseResult()
    outs = []
    for hs in case["hashseeds"]:
        envp = dict(os.environ, PYTHONHASHSEED=str(hs))
        p = subprocess.run([PY, os.path.join(env.VERIF_DIR, "pbt", "c09_child.py"), env.REPO, json.dumps(case)], capture_output=True, text=True, env=envp, timeout=120)
        if p.returncode != 0:
            res.violations.append(Violation("policy_process_failed", f"rc={p.returncode}: {p.stderr[-400:]}; case={case}", "repro.policy_process_failed"))
            return res
        outs.append(json.loads(p.stdout.strip().splitlines()[-1]))
    for spec_, a, b in zip(case["policies"], outs[0], outs[1]):
        if a != b:
            res.violations.append(Violation("release_times_differ", f"{spec_['kind']} policy without rng_seed: {a} vs {b} after random.seed({case['seed']}); case={case}",
                                            f"repro.release_times_differ.{spec_['kind']}"))
            break
    res.nontrivial = True
    res.classes = sorted({"policy=" + p_["kind"] for p_ in case["policies"]})
    if any(p_.get("calls", 1) > 1 for p_ in case["policies"]):
        res.classes.append("policy_object_asked_again")
    return res


CHECKS = [
    Check("two_fresh_processes", execute, strategy=spec_strategy, budget={"quick": 64, "thorough": 2500}),
    Check("release_policies_two_processes", exec_policies, strategy=policy_strategy, budget={"quick": 48, "thorough": 1500}),
]
