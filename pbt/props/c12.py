"""C12 - deadline enforcement: no plan that misses a deadline, hopeless tasks dropped."""
from hypothesis import strategies as st

from pbt import env, schedcall as SC, solvercap, specs
from pbt.runner import CaseResult, Check, Violation

env.setup()
from workload import Placement, TaskState  # noqa: E402

PROPERTY = "C12"
LEVEL = "exploration"
RULE = (
    "(a) Hypothesis scheduler inputs with boundary-biased deadlines (deadline - now - fastest runtime in -3..+14), strategy sets where "
    "only the slow strategy fits the free worker, for every enforcing policy (EDF, FIFO, Clockwork, TetriSched-CPLEX, ILP task-by-task, "
    "TetriSched-Gurobi; TetriSched-CPLEX also in batching mode with per-member deadlines); the returned plan is judged and, for the Gurobi-backed planners, up to 300 feasible points of the captured model "
    "(solution pool with a zero objective) plus an adversarial re-solve maximising lateness are decoded through the scheduler's own "
    "variables; (b) generated end-to-end runs of the planners with exact runtimes. Non-trivial = an instance with a task within +-1 of "
    "the admission boundary / a run in which a task completed; distinct by case hash."
)
ASSUMPTIONS = ["solver licence-limit errors are discarded", "ILP only in task-by-task mode (no release_taskgraphs), where enforcement is unconditional",
               "EDF/FIFO may place a slow strategy that misses (they are not planners)"]
us = SC.us
CANCELLERS = ("EDF", "FIFO", "Clockwork", "TetriSched_CPLEX")


def tight_cases(policies, batching=False):
    @st.composite
    def s(draw):
        flat = draw(st.booleans()) or batching
        case = draw(SC.call_cases(policies=policies, max_tasks=5 if flat else 4, tight_deadlines=True, max_runtime=9 if flat else 6, batching=batching, flat=flat))
        pol = case["policy"]
        pol["enforce_deadlines"] = True
        if pol["name"] == "ILP":
            pol["goal"] = "max_goodput"
            pol["release_taskgraphs"] = False
        # per-task deadlines around the admission boundary
        for g in case["graphs"]:
            for j in g["jobs"]:
                if draw(st.booleans()):
                    rts = [s_["runtime"] for s_ in case["profiles"][j["profile"]]["strategies"]]
                    # members of one batch get different deadlines: the batch has to meet the earliest of them
                    j["deadline"] = case["now"] + min(rts) + draw(st.integers(-1, 14) if batching else st.integers(-3, 6))
        if batching and len(case["graphs"]) >= 2 and draw(st.booleans()):
            # the contended-batch shape: two requests of one profile that can only run as a batch of two, an early and a late
            # deadline, and a single worker, so that the batch often cannot start at once
            for s_ in case["profiles"][0]["strategies"]:
                s_["batch"] = 2
            fastest = min(s_["runtime"] for s_ in case["profiles"][0]["strategies"])
            for g, slack in zip(case["graphs"][:2], (draw(st.integers(0, 3)), draw(st.integers(5, 14)))):
                g["jobs"][0]["profile"] = 0
                g["jobs"][0]["deadline"] = case["now"] + fastest + slack
            case["cluster"] = [dict(case["cluster"][0], workers=case["cluster"][0]["workers"][:1])]
            case["shape"] = "contended_batch"
        return case

    return s()


def execute(case):
    from pbt.props import c10

    res = CaseResult()
    V = res.violations
    pname = case["policy"]["name"]
    rec = SC.invoke(case, prepare=c10.prepare_clockwork if pname == "Clockwork" else None)
    if rec["discard"]:
        res.discard = rec["discard"]
        return res
    if rec["error"]:
        res.discard = "schedule_raised(C10)"
        return res
    state = rec["state"]
    now = us(state["now"])
    boundary = False

    def bad(clause, detail, extra=""):
        V.append(Violation(clause, f"{pname}: {detail}; case={case}", f"deadline.{clause}.{pname}{extra}"))

    offered = {t.unique_name: t for t, _s in (rec["offers"][0] if rec["offers"] else [])}
    decisions = {}
    for p in rec["placements"]:
        if p.placement_type in (Placement.PlacementType.PLACE_TASK, Placement.PlacementType.CANCEL_TASK):
            decisions.setdefault(p.task.unique_name, []).append(p)
    # tasks that hold an earlier plan (SCHEDULED) and are decided again: a plan that met the deadline must not be replaced
    # by one that misses it
    if pname in ("ILP", "TetriSched_Gurobi", "TetriSched_CPLEX"):
        for name, ps in decisions.items():
            for p in ps:
                t = p.task
                cp = getattr(t, "current_placement", None)
                if (t.state == TaskState.SCHEDULED and cp is not None and cp.execution_strategy is not None
                        and p.placement_type == Placement.PlacementType.PLACE_TASK and p.is_placed() and p.execution_strategy is not None
                        and us(cp.placement_time) + us(cp.execution_strategy.runtime) <= us(t.deadline)
                        and us(p.placement_time) + us(p.execution_strategy.runtime) > us(t.deadline)):
                    bad("committed_task_replanned_past_deadline", f"{name}: planned {us(cp.placement_time)}+{us(cp.execution_strategy.runtime)} <= deadline {us(t.deadline)}, "
                                                                  f"re-planned to {us(p.placement_time)}+{us(p.execution_strategy.runtime)}")
    for name, t in offered.items():
        if t.state != TaskState.RELEASED and t.state != TaskState.VIRTUAL:
            continue
        fastest = min(us(s.runtime) for s in t.available_execution_strategies)
        slack = us(t.deadline) - now - fastest
        if -1 <= slack <= 1:
            boundary = True
        ps = decisions.get(name, [])
        placed = [p for p in ps if p.placement_type == Placement.PlacementType.PLACE_TASK and p.is_placed()]
        cancelled = [p for p in ps if p.placement_type == Placement.PlacementType.CANCEL_TASK]
        if slack < 0:
            if placed:
                bad("hopeless_task_placed", f"{name}: deadline {us(t.deadline)}, now {now}, fastest runtime {fastest}, placed at {us(placed[0].placement_time)}")
            elif pname in CANCELLERS and not cancelled:
                bad("hopeless_task_not_cancelled", f"{name}: deadline {us(t.deadline)}, now {now}, fastest runtime {fastest}; decisions {[str(p) for p in ps]}")
        elif cancelled and pname in CANCELLERS:
            bad("feasible_task_cancelled", f"{name}: deadline {us(t.deadline)}, now {now}, fastest runtime {fastest} but answered with a cancellation")
        if pname in ("ILP", "TetriSched_Gurobi", "TetriSched_CPLEX", "Clockwork"):
            for p in placed:
                if p.execution_strategy is not None and us(p.placement_time) + us(p.execution_strategy.runtime) > us(t.deadline):
                    bad("plan_misses_deadline", f"{name}: start {us(p.placement_time)} + runtime {us(p.execution_strategy.runtime)} > deadline {us(t.deadline)}")
    # every feasible point of the captured model
    if pname in ("ILP", "TetriSched_Gurobi") and rec["models"] and rec["vars"] and not V:
        model, tvars = rec["models"][-1], rec["vars"][-1]
        n_points = 0
        try:
            with solvercap.quiet():
                for val in solvercap.pool_solutions(model, limit=200, time_limit=1.5, int_ub=now + 60):
                    n_points += 1
                    for name, d in solvercap.decode(pname, tvars, val).items():
                        if d["previously_placed"] or not d["placed"]:
                            continue
                        t = d["task"]
                        if getattr(t, "state", None) == TaskState.SCHEDULED:
                            cp = getattr(t, "current_placement", None)
                            if cp is None or cp.execution_strategy is None or us(cp.placement_time) + us(cp.execution_strategy.runtime) > us(t.deadline):
                                continue  # an earlier promise that already missed: judged when it was made
                        end = d["start"] + us(d["strategy"].runtime)
                        if end > us(t.deadline):
                            bad("feasible_point_misses_deadline", f"{name}: feasible point #{n_points} starts {d['start']} with runtime {us(d['strategy'].runtime)}, deadline {us(t.deadline)}")
                            break
                    if V:
                        break
        except Exception as e:
            if solvercap.is_licence_error(e):
                res.counters["pool_licence_limit"] = 1
            else:
                raise
        res.counters["feasible_points"] = n_points
    res.nontrivial = boundary
    res.classes = [f"policy={pname}", "boundary" if boundary else "no_boundary"]
    if case.get("shape"):
        res.classes.append(case["shape"])
    seen, outv = set(), []
    for v in V:
        if v.sig not in seen:
            seen.add(v.sig)
            outv.append(v)
    res.violations = outv[:4]
    return res


# ----------------------------------------------------------------------------- end-to-end
def planner_worlds(tier):
    return specs.planner_worlds(enforce=True, deadline_variances=[[0, 0], [0, 50], [50, 300]])


def exec_run(spec):
    from pbt import simrun
    from pbt.simprop import classes_of

    if spec["policy"]["name"] == "ILP":
        spec["policy"]["release_taskgraphs"] = False
    solvercap.install()
    with solvercap.quiet():
        rec = simrun.run_world(spec, max_steps=1500)
    res = CaseResult()
    res.classes = classes_of(rec)
    if rec.exception and solvercap.is_licence_error(Exception(rec.exception[1])):
        res.discard = "solver_licence_limit"
        return res
    done = 0
    for key, t in simrun.final_tasks(rec).items():
        if t.state == TaskState.COMPLETED:
            done += 1
            if us(t.completion_time) > us(t.deadline):
                chosen = [pl for s in rec.mon.sched for pl in s["placements"] if pl["task"] == key and pl["placed"]]
                deferred = rec.mon.n_deferrals
                late_plan = any(pl["time"] + (pl["runtime"] or 0) > us(t.deadline) for pl in chosen)
                res.violations.append(
                    Violation(
                        "completed_after_deadline",
                        f"{spec['policy']['name']}: {key} completed at {us(t.completion_time)} > deadline {us(t.deadline)}; plans {[(pl['time'], pl['runtime']) for pl in chosen]}; "
                        f"deferrals {deferred}; spec={spec}",
                        f"deadline.completed_after_deadline.{spec['policy']['name']}" + (".plan_was_late" if late_plan else ".start_was_deferred"),
                    )
                )
                break
    res.nontrivial = done > 0
    res.counters = {"completed_tasks": done}
    return res


CHECKS = [
    Check("greedy_admission", execute, strategy=lambda tier: tight_cases(("EDF", "FIFO")), budget={"quick": 1500, "thorough": 40000}),
    Check("clockwork_admission", execute, strategy=lambda tier: tight_cases(("Clockwork",)), budget={"quick": 600, "thorough": 15000}),
    Check("gurobi_planners", execute, strategy=lambda tier: tight_cases(("ILP", "TetriSched_Gurobi")), budget={"quick": 240, "thorough": 5000}),
    Check("cplex_planner", execute, strategy=lambda tier: tight_cases(("TetriSched_CPLEX",)), budget={"quick": 120, "thorough": 3000}),
    # --scheduler_enable_batching: requests of one profile are decided as one virtual batch task; every member has its own deadline
    Check("cplex_planner_batching", execute, strategy=lambda tier: tight_cases(("TetriSched_CPLEX",), batching=True), budget={"quick": 400, "thorough": 6000}),
    Check("planner_runs", exec_run, strategy=planner_worlds, budget={"quick": 160, "thorough": 4000}),
]
