"""C11 - DAG-aware planners order children after parents."""
from hypothesis import strategies as st

from pbt import env, schedcall as SC, solvercap
from pbt.runner import CaseResult, Check, Violation

env.setup()
from workload import Placement, TaskState  # noqa: E402

PROPERTY = "C11"
LEVEL = "exploration"
RULE = (
    "Hypothesis scheduler inputs in which chains / forks / joins / diamonds / random DAGs of <= 5 tasks are offered wholly or partly "
    "(release_taskgraphs, lookahead 0-30) with running (also overrunning), scheduled (also re-decided under retraction), withdrawn "
    "and completed predecessors on 1-2 pools x 1-2 workers, for ILP, "
    "TetriSched-Gurobi and Z3. The returned plan and, for the Gurobi-backed planners, up to 200 feasible points of the captured model "
    "(solution pool, zero objective) plus an adversarial re-solve that maximises (parent end - child start) are decoded through the "
    "scheduler's own variables. Non-trivial = an invocation in which >= 1 parent/child pair is decided together or a child is decided "
    "while its parent runs; distinct by case hash."
)
ASSUMPTIONS = ["conditional regions are excluded (C07 owns them)", "solver licence-limit errors are discarded",
               "the runtime charged to a co-decided parent is that of its chosen strategy (the weakest reading of 'chosen or worst-case')"]
us = SC.us


def dag_cases(policies):
    @st.composite
    def s(draw):
        case = draw(SC.call_cases(policies=policies, max_tasks=5, max_runtime=5, batching=False, allow_cond=False, plan_ahead_children=True))
        pol = case["policy"]
        if "release_taskgraphs" in pol:
            pol["release_taskgraphs"] = draw(st.sampled_from([True, True, False]))
        pol["lookahead"] = draw(st.sampled_from([0, 5, 15, 30]))
        for g in case["graphs"]:
            g["deadline"] = case["now"] + draw(st.integers(8, 50))
        cand = [g for g in case["graphs"] if g["jobs"][0]["children"]]
        # constructed shapes (each needs a history that plain generation meets less than once per quick run)
        shape = draw(st.sampled_from([None, None, None, "overrun", "replanned", "withdrawn", "planned_chain"])) if cand else None
        if shape == "overrun":
            # a parent that is running and overruns its strategy (runtime variance) while its children are planned
            g = cand[0]
            gone = lambda rows: [r for r in rows if (r[0] if isinstance(r, list) else r["graph"]) != g["name"]]  # noqa: E731
            for key in ("completed", "running", "scheduled", "retracted"):
                case[key] = gone(case.get(key, []))
            strat = case["profiles"][g["jobs"][0]["profile"]]["strategies"][0]
            strat["runtime"] = max(strat["runtime"], draw(st.integers(3, 5)))
            case["running"].append({"graph": g["name"], "job": g["jobs"][0]["name"], "pool": 0, "worker": 0, "strategy": 0,
                                    "elapsed": draw(st.integers(1, 4)), "overrun": draw(st.integers(1, 4))})
            g["release_time"] = 0
            if "release_taskgraphs" in pol and draw(st.booleans()):
                pol["release_taskgraphs"] = True
            else:
                pol["lookahead"] = 30
            case["shape"] = "overrunning_parent"
        elif shape == "replanned":
            # a parent that holds an earlier plan with its faster strategy and is decided again (retract_schedules) together
            # with its children: whatever strategy it gets now, the children come after it
            g = cand[0]
            gone = lambda rows: [r for r in rows if (r[0] if isinstance(r, list) else r["graph"]) != g["name"]]  # noqa: E731
            for key in ("completed", "running", "scheduled", "retracted"):
                case[key] = gone(case.get(key, []))
            strategies = case["profiles"][g["jobs"][0]["profile"]]["strategies"]
            if len(strategies) < 2:
                strategies.append(dict(strategies[0]))
            strategies[1]["runtime"] = strategies[0]["runtime"] + draw(st.integers(2, 4))
            case["scheduled"].append({"graph": g["name"], "job": g["jobs"][0]["name"], "pool": 0, "worker": 0, "strategy": 0, "at": draw(st.integers(1, 4))})
            g["release_time"] = 0
            pol["retract_schedules"] = True
            if "release_taskgraphs" in pol and draw(st.booleans()):
                pol["release_taskgraphs"] = True
            else:
                pol["lookahead"] = 30
            case["shape"] = "replanned_parent"
        elif shape == "withdrawn":
            # a parent whose earlier plan (with its faster strategy) was withdrawn again (Task.unschedule), decided together
            # with its children: nothing of the withdrawn plan may shorten the time the children wait
            g = cand[0]
            gone = lambda rows: [r for r in rows if (r[0] if isinstance(r, list) else r["graph"]) != g["name"]]  # noqa: E731
            for key in ("completed", "running", "scheduled", "retracted"):
                case[key] = gone(case.get(key, []))
            strategies = case["profiles"][g["jobs"][0]["profile"]]["strategies"]
            if len(strategies) < 2:
                strategies.append(dict(strategies[0]))
            strategies[1]["runtime"] = strategies[0]["runtime"] + draw(st.integers(2, 4))
            case["retracted"].append({"graph": g["name"], "job": g["jobs"][0]["name"], "strategy": 0})
            g["release_time"] = 0
            if "release_taskgraphs" in pol and draw(st.booleans()):
                pol["release_taskgraphs"] = True
            else:
                pol["lookahead"] = 30
            case["shape"] = "withdrawn_parent"
        elif shape == "planned_chain":
            # a chain planned ahead by an earlier invocation (parent and first child both SCHEDULED) that a non-retracting
            # planner meets again together with a newcomer
            g = cand[0]
            gone = lambda rows: [r for r in rows if (r[0] if isinstance(r, list) else r["graph"]) != g["name"]]  # noqa: E731
            for key in ("completed", "running", "scheduled", "retracted"):
                case[key] = gone(case.get(key, []))
            root = g["jobs"][0]
            child = g["jobs"][root["children"][0]]
            slow = max(s_["runtime"] for s_ in case["profiles"][root["profile"]]["strategies"])
            at = draw(st.integers(1, 4))
            pw = {"pool": draw(st.integers(0, 2)), "worker": draw(st.integers(0, 2))}
            case["scheduled"].append(dict(pw, graph=g["name"], job=root["name"], strategy=draw(st.integers(0, 1)), at=at))
            case["scheduled"].append(dict(pool=draw(st.integers(0, 2)), worker=draw(st.integers(0, 2)), graph=g["name"], job=child["name"],
                                          strategy=draw(st.integers(0, 1)), at=at + slow + 1 + draw(st.integers(0, 3))))
            g["release_time"] = 0
            case["graphs"].append({"name": "GX", "jobs": [{"name": "GX_j0", "profile": 0, "children": [], "conditional": False, "terminal": False, "probability": 1.0}],
                                   "release_time": case["now"], "deadline": case["now"] + draw(st.integers(8, 50))})
            pol["retract_schedules"] = False
            case["shape"] = "planned_chain_meets_newcomer"
        return case

    return s()


def check_plan(case, rec, plan, V, where, pname):
    """plan: {task name: {"placed", "start", "runtime"}} for co-decided tasks."""
    state = rec["state"]
    now = us(state["now"])
    wl = state["workload"]
    pairs = 0
    for name, d in plan.items():
        t = d["task"]
        tg = wl.get_task_graph(t.task_graph)
        for parent in tg.get_parents(t):
            pd = plan.get(parent.unique_name)
            if pd is not None:
                pairs += 1
                if d["placed"] and not pd["placed"]:
                    V.append(Violation("child_placed_without_parent", f"{pname} [{where}]: {name} placed at {d['start']} while co-decided parent {parent.unique_name} is unplaced; case={case}",
                                       f"order.child_placed_without_parent.{pname}"))
                elif d["placed"] and pd["placed"] and d["start"] < pd["start"] + pd["runtime"]:
                    V.append(Violation("child_before_parent_end", f"{pname} [{where}]: {name} starts {d['start']} < parent {parent.unique_name} start {pd['start']} + runtime {pd['runtime']}; case={case}",
                                       f"order.child_before_parent_end.{pname}"))
            elif d["placed"]:
                if parent.state == TaskState.RUNNING:
                    pairs += 1
                    fin = now + us(parent.remaining_time)
                    if d["start"] < fin:
                        V.append(Violation("child_before_running_parent_end", f"{pname} [{where}]: {name} starts {d['start']} < running parent {parent.unique_name} expected finish {fin}; case={case}",
                                           f"order.child_before_running_parent_end.{pname}"))
                elif parent.state == TaskState.SCHEDULED:
                    pairs += 1
                    pl = parent.current_placement
                    fin = max(us(pl.placement_time), now) + us(pl.execution_strategy.runtime)
                    if d["start"] < fin:
                        V.append(Violation("child_before_scheduled_parent_end", f"{pname} [{where}]: {name} starts {d['start']} < scheduled parent {parent.unique_name} expected finish {fin}; case={case}",
                                           f"order.child_before_scheduled_parent_end.{pname}"))
                elif parent.state in (TaskState.VIRTUAL, TaskState.RELEASED):
                    V.append(Violation("child_placed_parent_not_considered", f"{pname} [{where}]: {name} placed at {d['start']} although its parent {parent.unique_name} is {parent.state.name} and undecided; case={case}",
                                       f"order.child_placed_parent_not_considered.{pname}"))
    return pairs


def execute(case):
    res = CaseResult()
    V = res.violations
    pname = case["policy"]["name"]
    rec = SC.invoke(case)
    if rec["discard"]:
        res.discard = rec["discard"]
        return res
    if rec["error"]:
        res.discard = "schedule_raised(C10)"
        return res
    plan = {}
    for p in rec["placements"]:
        if p.placement_type == Placement.PlacementType.PLACE_TASK:
            placed = p.is_placed()
            rt = None
            if placed:
                if p.execution_strategy is not None:
                    rt = us(p.execution_strategy.runtime)
                elif p.task.state in (TaskState.VIRTUAL, TaskState.RELEASED):
                    # a decision without a strategy (Z3): the worst case, computed here and not asked of the task
                    rt = max(us(s_.runtime) for s_ in p.task.available_execution_strategies)
                else:
                    rt = us(p.task.remaining_time)
            plan[p.task.unique_name] = {"task": p.task, "placed": placed, "start": us(p.placement_time) if placed else None, "runtime": rt}
    pairs = check_plan(case, rec, plan, V, "returned plan", pname)
    n_points = 0
    if pname in ("ILP", "TetriSched_Gurobi") and rec["models"] and rec["vars"] and not V:
        model, tvars = rec["models"][-1], rec["vars"][-1]
        now = us(rec["state"]["now"])
        try:
            with solvercap.quiet():
                for val in solvercap.pool_solutions(model, limit=200, time_limit=1.5, int_ub=now + 80):
                    n_points += 1
                    dec = solvercap.decode(pname, tvars, val)
                    point = {}
                    for name, d in dec.items():
                        if d["previously_placed"]:
                            continue
                        point[name] = {"task": d["task"], "placed": d["placed"], "start": d["start"] if d["placed"] else None,
                                       "runtime": us(d["strategy"].runtime) if d["placed"] else None}
                    check_plan(case, rec, point, V, f"feasible point #{n_points}", pname)
                    if V:
                        break
        except Exception as e:
            if solvercap.is_licence_error(e):
                res.counters["pool_licence_limit"] = 1
            else:
                raise
    res.counters["feasible_points"] = n_points
    res.counters["pairs_checked"] = pairs
    res.nontrivial = pairs > 0
    res.classes = [f"policy={pname}", "pairs" if pairs else "no_pairs"] + ([case["shape"]] if case.get("shape") else [])
    if rec["state"]["notes"].get("retracted"):
        res.classes.append("withdrawn_earlier_plan")
    seen, outv = set(), []
    for v in V:
        if v.sig not in seen:
            seen.add(v.sig)
            outv.append(v)
    res.violations = outv[:4]
    return res


CHECKS = [
    Check("gurobi_planners", execute, strategy=lambda tier: dag_cases(("ILP", "TetriSched_Gurobi")), budget={"quick": 480, "thorough": 8000}),
    Check("z3_planner", execute, strategy=lambda tier: dag_cases(("Z3",)), budget={"quick": 200, "thorough": 4000}),
]
