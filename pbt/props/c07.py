"""C07 - conditional branches: exactly one branch runs, the others are cancelled."""
from hypothesis import strategies as st

from pbt import simchecks as J
from pbt import specs
from pbt.runner import Check
from pbt.simprop import sim_execute

PROPERTY = "C07"
LEVEL = "exploration"
RULE = (
    "Hypothesis WorldSpecs whose graphs are dominated by well-formed conditional regions (2-3 branches of unequal "
    "length, nesting depth <= 2, several regions per graph, probability sets {1,0},{.5,.5},{.25,.75},{.5,.25,.25} "
    "incl. zero-probability branches), random seeds as part of the spec, EDF/FIFO/LSF on feasible clusters without "
    "timeout, with and without resolution at submission. Non-trivial = a run in which a conditional with >= 2 "
    "positive-probability children completed; distinct by spec hash."
)
ASSUMPTIONS = ["only well-formed conditional/terminal pairs are generated (a branch never leaks past its terminal)", "scheduler runtime 0"]


@st.composite
def cond_flags(draw):
    return {
        "scheduler_frequency": draw(st.sampled_from([-1, -1, 1, 3])),
        "scheduler_delay": draw(st.sampled_from([0, 0, 1])),
        "run_at_worker_free": draw(st.sampled_from([False, False, True])),
        "drop_skipped_tasks": False,
        "runtime_variance": 0,
        "loop_timeout": None,
        "resolve_conditionals_at_submission": draw(st.booleans()),
    }


def cond_worlds(tier):
    return specs.worlds(
        policy=specs.greedy_policy(enforce=False), feasible=True, conditionals="heavy", max_jobs=12, max_graphs=2,
        release_kinds=("fixed", "fixed", "poisson", "closed_loop"), flags=cond_flags(), deadline_variances=[[0, 0], [50, 300]],
    )


def execute(spec, must_finish=True):
    from pbt import simrun
    from pbt.runner import CaseResult
    from pbt.simprop import classes_of

    rec = simrun.run_world(spec)
    # the generated plan-ahead policy is not work-conserving (it may decline a task that fits), so only the greedy
    # worlds promise that the join and its successors run
    rec._c07_must_finish = must_finish
    res = CaseResult()
    res.classes = classes_of(rec)
    res.violations.extend(J.judge_c07(rec))
    res.nontrivial = J.nontrivial_c07(rec)
    res.counters = {"conditionals_resolved": getattr(rec, "_resolved", 0), "tasks": len(simrun.final_tasks(rec))}
    if spec["flags"].get("resolve_conditionals_at_submission"):
        res.classes.append("resolved_at_submission")
    return res


CHECKS = [
    Check("conditional_sim", execute, strategy=cond_worlds, budget={"quick": 2500, "thorough": 50000}),
    Check("scripted_sim", lambda spec: execute(spec, must_finish=False), strategy=lambda tier: specs.scripted_worlds(flags=cond_flags(), release_kinds=("fixed", "fixed", "poisson", "closed_loop")),
          budget={"quick": 500, "thorough": 30000}),
]
