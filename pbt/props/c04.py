"""C04 - resource ledger conservation: nothing leaks, nothing is double-counted (model-based, stateful)."""
from copy import copy, deepcopy

from hypothesis import strategies as st

from pbt import env, specs
from pbt import simchecks as J
from pbt.runner import CaseResult, Check, Violation
from pbt.simprop import sim_execute

env.setup()
from utils import EventTime  # noqa: E402
from workers import Worker, WorkerPool, WorkerPools  # noqa: E402
from workload import (  # noqa: E402
    BatchStrategy,
    ExecutionStrategies,
    ExecutionStrategy,
    Job,
    Resource,
    Resources,
    Task,
    WorkProfile,
)

PROPERTY = "C04"
LEVEL = "exploration"
RULE = (
    "three operation-history machines (Hypothesis operation lists interpreted against the real object and a reference "
    "ledger): (a) Resources: allocate / allocate_multiple / deallocate / copy / deepcopy over 1-3 types x 1-2 instances, "
    "'any' and specific-id requests, plus capacity vectors with an 'any'-id instance next to others (aggregate ledger); (b) Worker: place (plain and BatchStrategy, re-use after the batch emptied) / remove / "
    "load (0 or 3 us) / evict / step with the pending and the available profile sets modelled / copy / deepcopy; (c) WorkerPools: place with/without worker id and strategy / remove / copy / "
    "deepcopy; plus the end-to-end ledger clause on simulated worlds. Non-trivial = a history with a refusal after >= 1 "
    "success, or a batch whose last member leaves, or a mutation after a copy; distinct by case hash."
)
ASSUMPTIONS = [
    "which instance serves an 'any' request is implementation-defined: per-instance availability is read back through the "
    "public getter and validated by conservation, only aggregates and refusals are predicted",
    "a task is never placed twice and only removed where it was placed (no caller does otherwise)",
]

US = EventTime.Unit.US
TYPES = ["CPU", "GPU", "MEM"]
_JOB = None


def mk_task(i):
    global _JOB
    if _JOB is None:
        _JOB = Job(name="J")
    return Task(name=f"t{i}", task_graph="g", job=_JOB, deadline=EventTime(100, US))


# ================================================================== (a) Resources
def res_strategy(tier):
    vec = st.lists(st.tuples(st.sampled_from(TYPES), st.integers(0, 4)), min_size=1, max_size=5)
    rid = st.one_of(st.just("any"), st.integers(0, 4))
    req = st.tuples(st.sampled_from(TYPES), rid, st.integers(0, 5))
    # one type asked for twice in one request, by 'any' and by instance id: the entries compete for the same instances,
    # so the request can pass the per-entry pre-check and still be refused half-way (rollback path)
    mixed = st.tuples(st.sampled_from(TYPES), st.integers(1, 4), st.integers(0, 4), st.integers(1, 4), st.booleans()).map(
        lambda t: [[t[0], "any", t[1]], [t[0], t[2], t[3]]][:: 1 if t[4] else -1])
    op = st.one_of(
        st.tuples(st.just("alloc"), st.integers(0, 3), req),
        st.tuples(st.just("alloc"), st.integers(0, 3), req),
        st.tuples(st.just("alloc_multi"), st.integers(0, 3), st.lists(req, min_size=1, max_size=3)),
        st.tuples(st.just("alloc_multi"), st.integers(0, 3), mixed),
        st.tuples(st.just("dealloc"), st.integers(0, 3)),
        st.tuples(st.just("dealloc"), st.integers(0, 3)),
        st.tuples(st.just("copy")),
        st.tuples(st.just("deepcopy")),
        st.tuples(st.just("switch")),
    )
    return st.tuples(vec, st.lists(op, min_size=2, max_size=30)).map(lambda t: {"vector": [list(x) for x in t[0]], "ops": _listify(t[1])})


def _listify(x):
    if isinstance(x, (list, tuple)):
        return [_listify(y) for y in x]
    return x


class ResModel:
    """Reference ledger for one Resources object."""

    def __init__(self, instances):
        self.inst = instances  # list of (type, Resource object, total)
        self.alloc = {}  # comp index -> {instance idx: qty}

    def clone(self, keep=True):
        m = ResModel(self.inst)
        if keep:
            m.alloc = {c: dict(a) for c, a in self.alloc.items()}
        return m

    def used(self, i):
        return sum(a.get(i, 0) for a in self.alloc.values())


def res_snapshot(res, model, comps):
    snap = {}
    for i, (t, r, total) in enumerate(model.inst):
        snap[("avail", i)] = res.get_available_quantity(r)
        snap[("total", i)] = res.get_total_quantity(r)
        snap[("alloc", i)] = sorted((comps.index(c), q) for c, q in res.get_allocated_computation(r) if c in comps)
    for t in TYPES:
        a = Resource(name=t, _id="any")
        snap[("avail_any", t)] = res.get_available_quantity(a)
        snap[("total_any", t)] = res.get_total_quantity(a)
        snap[("allocated_any", t)] = res.get_allocated_quantity(a)
    return snap


def exec_res(case):
    res_ = CaseResult()
    V = res_.violations
    instances = []
    vec = {}
    for t, q in case["vector"]:
        r = Resource(name=t)
        vec[r] = q
        instances.append((t, r, q))
    objs = [Resources(resource_vector=vec)]
    models = [ResModel(instances)]
    comps = [mk_task(i) for i in range(4)]
    cur = 0
    successes = 0
    flags = {"refusal_after_success": False, "mutation_after_copy": False}
    copied = False

    def bad(clause, detail):
        V.append(Violation(clause, f"{detail}; case={case}", f"resources.{clause}"))

    def request_resource(t, rid):
        if rid == "any":
            return Resource(name=t, _id="any"), [i for i, (tt, _r, _q) in enumerate(instances) if tt == t]
        cands = [i for i, (tt, _r, _q) in enumerate(instances) if tt == t]
        if not cands:
            return Resource(name=t, _id="any"), []
        i = cands[rid % len(cands)]
        return copy(instances[i][1]), [i]

    def check_conservation(k, what):
        o, m = objs[k], models[k]
        snap = res_snapshot(o, m, comps)
        for i, (t, r, total) in enumerate(instances):
            av = snap[("avail", i)]
            recorded = sum(q for _c, q in snap[("alloc", i)])
            if av < 0 or av > total or av + recorded != total or snap[("total", i)] != total:
                bad("conservation", f"after {what}: instance {i} ({t}) available={av} recorded allocations={snap[('alloc', i)]} total={total} (getter total {snap[('total', i)]})")
                return None
            if recorded != m.used(i):
                bad("allocation_record", f"after {what}: instance {i} ({t}) has {recorded} allocated, model {m.used(i)}")
                return None
        for t in TYPES:
            tot = sum(q for tt, _r, q in instances if tt == t)
            if snap[("total_any", t)] != tot or snap[("avail_any", t)] + snap[("allocated_any", t)] != tot:
                bad("aggregate", f"after {what}: type {t} avail={snap[('avail_any', t)]} allocated={snap[('allocated_any', t)]} total={tot}")
                return None
        return snap

    def sync(k):
        """Read back which instances served the last request (implementation-defined for 'any')."""
        o, m = objs[k], models[k]
        new = {}
        for i, (t, r, total) in enumerate(instances):
            for c, q in o.get_allocated_computation(r):
                if c in comps:
                    d = new.setdefault(comps.index(c), {})
                    d[i] = d.get(i, 0) + q
        return new

    try:
        for op in case["ops"]:
            kind = op[0]
            o, m = objs[cur], models[cur]
            before = res_snapshot(o, m, comps)
            if kind == "alloc":
                c, (t, rid, q) = op[1], op[2]
                r, cands = request_resource(t, rid)
                avail = sum(instances[i][2] - m.used(i) for i in cands)
                expect_ok = avail >= q
                try:
                    o.allocate(r, comps[c], q)
                    ok = True
                except ValueError:
                    ok = False
                if ok != expect_ok:
                    bad("allocate_outcome", f"allocate({t}:{rid}, q={q}) {'succeeded' if ok else 'was refused'} with {avail} available")
                    break
                if ok:
                    new = sync(cur)
                    got = sum(new.get(c, {}).values()) - sum(m.alloc.get(c, {}).values())
                    served = {i for i in new.get(c, {}) if new[c][i] != m.alloc.get(c, {}).get(i, 0)}
                    if got != q or not served <= set(cands):
                        bad("allocate_amount", f"allocate({t}:{rid}, q={q}) recorded {got} on instances {sorted(served)} (allowed {cands})")
                        break
                    m.alloc = new
                    successes += 1
                    if copied:
                        flags["mutation_after_copy"] = True
                else:
                    if successes:
                        flags["refusal_after_success"] = True
                    if res_snapshot(o, m, comps) != before:
                        bad("refused_allocate_changed_state", f"allocate({t}:{rid}, q={q}) raised but the ledger changed")
                        break
            elif kind == "alloc_multi":
                c, reqs = op[1], op[2]
                vec2 = {}
                for t, rid, q in reqs:
                    r, cands = request_resource(t, rid)
                    vec2[r] = q  # dict semantics: 'any' entries of one type collapse, as in the loader
                request = Resources(resource_vector=vec2)
                # joint feasibility by exhaustive assignment of 'any' demand is unnecessary: each entry is served in turn
                items = list(request._resource_vector.items())
                free = [instances[i][2] - m.used(i) for i in range(len(instances))]
                feasible = True
                # specific ids first cannot be assumed; a refusal is only *required* when some entry alone cannot be served,
                # a success is only *required* when the entries are jointly servable in any order
                alone_ok = all(sum(free[i] for i, (tt, rr, _q) in enumerate(instances) if rr == r2) >= q2 for r2, q2 in items)
                spec_need = {}
                any_need = {}
                for r2, q2 in items:
                    if r2.id == "any":
                        any_need[r2.name] = any_need.get(r2.name, 0) + q2
                    else:
                        i = next(i for i, (_t, rr, _q) in enumerate(instances) if rr.id == r2.id)
                        spec_need[i] = spec_need.get(i, 0) + q2
                joint_ok = all(free[i] >= n for i, n in spec_need.items()) and all(
                    sum(free[i] - spec_need.get(i, 0) for i, (tt, _r, _q) in enumerate(instances) if tt == t) >= n for t, n in any_need.items()
                )
                mixed = any(any(tt == instances[i][0] for i in spec_need) for tt in any_need)
                try:
                    o.allocate_multiple(request, comps[c])
                    ok = True
                except ValueError:
                    ok = False
                if ok and not alone_ok:
                    bad("allocate_multiple_oversubscribed", f"allocate_multiple({reqs}) succeeded although an entry exceeds availability {free}")
                    break
                if not ok and joint_ok and not mixed:
                    bad("allocate_multiple_refused", f"allocate_multiple({reqs}) refused although jointly servable with free={free}")
                    break
                if ok:
                    new = sync(cur)
                    got = {}
                    for i, qn in new.get(c, {}).items():
                        d = qn - m.alloc.get(c, {}).get(i, 0)
                        if d:
                            got[instances[i][0]] = got.get(instances[i][0], 0) + d
                    want = {}
                    for r2, q2 in items:
                        if q2:
                            want[r2.name] = want.get(r2.name, 0) + q2
                    if got != want:
                        bad("allocate_multiple_amount", f"allocate_multiple({reqs}) recorded {got}, requested {want}")
                        break
                    m.alloc = new
                    successes += 1
                    if copied:
                        flags["mutation_after_copy"] = True
                else:
                    if successes:
                        flags["refusal_after_success"] = True
                    if res_snapshot(o, m, comps) != before:
                        bad("refused_allocate_multiple_changed_state" + (".mixed_any_and_specific" if mixed else ""),
                            f"allocate_multiple({reqs}) raised but the ledger changed (partial allocation)")
                        break
            elif kind == "dealloc":
                c = op[1]
                had = c in m.alloc and sum(m.alloc[c].values()) > 0
                try:
                    o.deallocate(comps[c])
                    ok = True
                except ValueError:
                    ok = False
                if had and not ok:
                    bad("deallocate_refused", f"deallocate(comp {c}) raised although it holds {m.alloc[c]}")
                    break
                if ok:
                    m.alloc.pop(c, None)
                    if copied:
                        flags["mutation_after_copy"] = True
                elif res_snapshot(o, m, comps) != before:
                    bad("refused_deallocate_changed_state", f"deallocate(comp {c}) raised but the ledger changed")
                    break
            elif kind == "copy":
                if len(objs) < 3:
                    cp = copy(o)
                    cm = m.clone(True)
                    if res_snapshot(cp, cm, comps) != before:
                        bad("copy_differs", f"copy() answers {res_snapshot(cp, cm, comps)} but the original {before}")
                        break
                    objs.append(cp)
                    models.append(cm)
                    copied = True
            elif kind == "deepcopy":
                if len(objs) < 3:
                    dp = deepcopy(o)
                    dm = m.clone(False)
                    objs.append(dp)
                    models.append(dm)
                    copied = True
            elif kind == "switch":
                cur = (cur + 1) % len(objs)
            # conservation on every live object (independence of copies)
            dead = False
            for k in range(len(objs)):
                if check_conservation(k, f"{op} (object {k}, current {cur})") is None:
                    dead = True
                    break
            if dead:
                break
        if not V:
            # removing everything restores full capacity
            for k in range(len(objs)):
                for c in list(models[k].alloc):
                    objs[k].deallocate(comps[c])
                    models[k].alloc.pop(c)
                snap = res_snapshot(objs[k], models[k], comps)
                for i, (t, r, total) in enumerate(instances):
                    if snap[("avail", i)] != total:
                        bad("not_restored", f"after deallocating everything instance {i} has {snap[('avail', i)]} of {total}")
    except Exception as e:
        bad(f"raises.{type(e).__name__}", f"{type(e).__name__}: {e}")
    res_.nontrivial = flags["refusal_after_success"] or flags["mutation_after_copy"]
    res_.classes = [k for k, v in flags.items() if v] or ["plain"]
    return res_


# ================================================================== (a') capacity vectors with an 'any'-id instance
def any_cap_strategy(tier):
    """Workers in the repository's own tests are configured with an 'any'-id capacity instance (Resource(name, _id="any"): q).
    Such an instance may stand next to other instances of its type; requests by 'any' then range over all of them.  Only the
    aggregate ledger per type is modelled (the per-instance getters are ambiguous for a wildcard instance)."""
    vec = st.lists(st.tuples(st.sampled_from(TYPES), st.sampled_from(["any", "any", "a", "b"]), st.integers(1, 3)), min_size=1, max_size=5)
    op = st.one_of(
        st.tuples(st.just("alloc"), st.integers(0, 3), st.sampled_from(TYPES), st.integers(1, 4)),
        st.tuples(st.just("alloc"), st.integers(0, 3), st.sampled_from(TYPES), st.integers(1, 4)),
        st.tuples(st.just("alloc_multi"), st.integers(0, 3), st.sampled_from(TYPES), st.integers(1, 4)),
        st.tuples(st.just("dealloc"), st.integers(0, 3), st.just("-"), st.just(0)),
        st.tuples(st.just("dealloc"), st.integers(0, 3), st.just("-"), st.just(0)),
        st.tuples(st.just("copy"), st.just(0), st.just("-"), st.just(0)),
    )
    return st.tuples(vec, st.lists(op, min_size=3, max_size=24)).map(lambda t: {"vector": [list(x) for x in t[0]], "ops": _listify(t[1])})


def exec_any_cap(case):
    res_ = CaseResult()
    V = res_.violations
    vec, total = {}, {}
    for t, rid, q in case["vector"]:
        r = Resource(name=t, _id=rid)
        if r in vec:
            continue  # one instance per (type, id)
        vec[r] = q
        total[t] = total.get(t, 0) + q
    obj = Resources(resource_vector=vec)
    comps = [mk_task(i) for i in range(4)]
    held = {}  # comp idx -> (type, qty)
    refilled = False
    released = False

    def bad(clause, detail):
        V.append(Violation(clause, f"{detail}; case={case}", f"resources.any_capacity.{clause}"))

    def check(o, what):
        for t in TYPES:
            a = Resource(name=t, _id="any")
            used = sum(q for tt, q in held.values() if tt == t)
            got = (o.get_available_quantity(a), o.get_allocated_quantity(a), o.get_total_quantity(a))
            exp = (total.get(t, 0) - used, used, total.get(t, 0))
            if got != exp:
                bad("aggregate", f"after {what}: type {t} (available, allocated, total) = {got}, expected {exp}")
                return False
        return True

    try:
        for op in case["ops"]:
            kind, ci, t, q = op
            if kind in ("alloc", "alloc_multi"):
                if ci in held:
                    continue
                used = sum(qq for tt, qq in held.values() if tt == t)
                exp = "ok" if q <= total.get(t, 0) - used else "ValueError"
                try:
                    if kind == "alloc":
                        obj.allocate(Resource(name=t, _id="any"), comps[ci], q)
                    else:
                        obj.allocate_multiple(Resources({Resource(name=t, _id="any"): q}), comps[ci])
                    out = "ok"
                except ValueError:
                    out = "ValueError"
                if out != exp:
                    bad("alloc_outcome", f"{kind}({t}:any x{q}) gave {out}, expected {exp} with {held} held of {total}")
                    break
                if out == "ok":
                    held[ci] = (t, q)
                    if released:
                        refilled = True
            elif kind == "dealloc":
                if ci not in held:
                    continue
                obj.deallocate(comps[ci])
                held.pop(ci)
                released = True
            elif kind == "copy":
                if not check(copy(obj), "copy (the copy)"):
                    break
            if not check(obj, op):
                break
    except Exception as e:
        import traceback

        tb = traceback.extract_tb(e.__traceback__)
        where = next((f"{f.filename.split('/')[-1]}:{f.name}" for f in reversed(tb) if "/verif/" not in f.filename), "?")
        bad(f"raises.{type(e).__name__}.{where}", f"{type(e).__name__}: {e}")
    mixed = any(sum(1 for (tt, _i, _q) in case["vector"] if tt == t) >= 2 and any(i == "any" for tt, i, _q in case["vector"] if tt == t) for t in TYPES)
    res_.nontrivial = refilled
    res_.classes = ["any_instance_next_to_others" if mixed else "plain_vector", "refilled_after_release" if refilled else "no_refill"]
    return res_


# ================================================================== (b) Worker
def strat_specs():
    return st.lists(
        st.tuples(st.dictionaries(st.sampled_from(TYPES), st.integers(1, 3), min_size=1, max_size=2), st.integers(1, 3), st.booleans()),
        min_size=1, max_size=4,
    )


def worker_strategy(tier):
    cap = st.dictionaries(st.sampled_from(TYPES), st.lists(st.integers(1, 4), min_size=1, max_size=2), min_size=1, max_size=3)
    op = st.one_of(
        st.tuples(st.just("place"), st.integers(0, 5), st.integers(0, 3)),
        st.tuples(st.just("place"), st.integers(0, 5), st.integers(0, 3)),
        st.tuples(st.just("remove"), st.integers(0, 5)),
        st.tuples(st.just("remove"), st.integers(0, 5)),
        st.tuples(st.just("load"), st.integers(0, 1), st.integers(0, 3)),
        st.tuples(st.just("evict"), st.integers(0, 1)),
        st.tuples(st.just("step")),
        st.tuples(st.just("copy")),
        st.tuples(st.just("deepcopy")),
        st.tuples(st.just("switch")),
    )
    return st.tuples(cap, strat_specs(), st.lists(op, min_size=3, max_size=30)).map(
        lambda t: {"capacity": t[0], "strategies": _listify(t[1]), "ops": _listify(t[2])}
    )


class WorkerModel:
    def __init__(self, cap):
        self.cap = cap
        self.tasks = {}  # task idx -> strategy idx
        self.batches = {}  # strategy idx -> set(task idx)
        self.profiles = {}  # profile idx -> strategy idx
        self.pending = set()  # resident profiles whose load has not been stepped to completion yet

    def clone(self, keep=True):
        m = WorkerModel(self.cap)
        if keep:
            m.tasks = dict(self.tasks)
            m.batches = {k: set(v) for k, v in self.batches.items()}
            m.profiles = dict(self.profiles)
            m.pending = set(self.pending)
        return m


def exec_worker(case):
    res_ = CaseResult()
    V = res_.violations
    cap = {t: sum(qs) for t, qs in case["capacity"].items()}
    vec = {}
    for t, qs in case["capacity"].items():
        for q in qs:
            vec[Resource(name=t)] = q
    specs_ = case["strategies"]
    strategies = []
    for demand, bsize, is_batch in specs_:
        base = ExecutionStrategy(resources=Resources({Resource(name=t, _id="any"): q for t, q in demand.items()}), batch_size=bsize, runtime=EventTime(3, US))
        strategies.append(BatchStrategy(base) if is_batch else base)
    # loading strategies: the same demands, loading instantly (0 us, pending until the next step) or in 3 us (one 5 us step)
    loaders = [ExecutionStrategy(resources=Resources({Resource(name=t, _id="any"): q for t, q in demand.items()}), batch_size=1,
                                 runtime=EventTime(0 if i % 2 else 3, US)) for i, (demand, _b, _ib) in enumerate(specs_)]
    tasks = [mk_task(i) for i in range(6)]
    profiles = [WorkProfile(name=f"prof{i}") for i in range(2)]
    workers = [Worker(name="W", resources=Resources(resource_vector=vec))]
    models = [WorkerModel(cap)]
    cur = 0
    flags = {"refusal_after_success": False, "batch_emptied": False, "mutation_after_copy": False, "batch_reused": False, "pending_profile_evicted": False}
    successes = 0
    copied = False
    emptied = set()

    def bad(clause, detail):
        V.append(Violation(clause, f"{detail}; case={case}", f"worker.{clause}"))

    def occ(m):
        o = {}
        for ti, si in m.tasks.items():
            if not specs_[si][2]:
                for t, q in specs_[si][0].items():
                    o[t] = o.get(t, 0) + q
        for si, members in m.batches.items():
            if members:
                for t, q in specs_[si][0].items():
                    o[t] = o.get(t, 0) + q
        for _pi, si in m.profiles.items():
            for t, q in specs_[si][0].items():
                o[t] = o.get(t, 0) + q
        return o

    def fits(m, si):
        o = occ(m)
        return all(o.get(t, 0) + q <= m.cap.get(t, 0) for t, q in specs_[si][0].items())

    def observe(w):
        snap = {}
        for t in TYPES:
            r = Resource(name=t, _id="any")
            snap[t] = (w.resources.get_available_quantity(r), w.resources.get_allocated_quantity(r), w.resources.get_total_quantity(r))
        snap["placed"] = sorted(tasks.index(t) for t in w.get_placed_tasks())
        snap["fits"] = [bool(w.can_accomodate_strategy(s)) for s in strategies]
        snap["avail_profiles"] = sorted(profiles.index(p) for p in w.get_available_profiles())
        snap["pending_profiles"] = sorted(profiles.index(p) for p in w.get_pending_profiles())
        return snap

    def expected(m):
        o = occ(m)
        snap = {}
        for t in TYPES:
            c = m.cap.get(t, 0)
            snap[t] = (c - o.get(t, 0), o.get(t, 0), c)
        snap["placed"] = sorted(m.tasks)
        snap["fits"] = [fits(m, si) or (specs_[si][2] and bool(m.batches.get(si))) for si in range(len(specs_))]
        snap["avail_profiles"] = sorted(set(m.profiles) - m.pending)
        snap["pending_profiles"] = sorted(m.pending)
        return snap

    def compare(k, what):
        got, exp = observe(workers[k]), expected(models[k])
        for key in list(TYPES) + ["placed", "fits", "avail_profiles", "pending_profiles"]:
            if got[key] != exp[key]:
                tag = ""
                if key.endswith("_profiles"):
                    bad("getter_profiles" + (".on_copy" if k > 0 else ""), f"after {what} on object {k}: {key}: observed {got[key]} expected {exp[key]}")
                    return False
                if key == "fits":
                    diff = [i for i in range(len(specs_)) if got["fits"][i] != exp["fits"][i]]
                    if all(specs_[i][2] for i in diff):
                        tag = ".batch_strategy" + (".on_copy" if k > 0 else "") + (".after_batch_emptied" if any(i in emptied for i in diff) else "")
                elif k > 0:
                    tag = ".on_copy"
                bad(f"getter_{'can_accomodate' if key == 'fits' else ('placed_tasks' if key == 'placed' else 'quantities')}{tag}",
                    f"after {what} on object {k}: {key}: observed {got[key]} expected {exp[key]}")
                return False
        return True

    try:
        for op in case["ops"]:
            kind = op[0]
            w, m = workers[cur], models[cur]
            before = observe(w)
            if kind == "place":
                ti, si = op[1], op[2] % len(specs_)
                if ti in m.tasks or any(ti in mm.tasks for mm in models if mm is not m and False):
                    continue
                demand, bsize, is_batch = specs_[si]
                if is_batch and m.batches.get(si):
                    exp = "ok" if len(m.batches[si]) + 1 <= bsize else "RuntimeError"
                else:
                    exp = "ok" if fits(m, si) else "ValueError"
                try:
                    w.place_task(tasks[ti], strategies[si])
                    out = "ok"
                except (ValueError, RuntimeError) as e:
                    out = type(e).__name__
                if out != exp:
                    tag = ""
                    if is_batch and si in emptied:
                        tag = ".batch_reused_after_emptied"
                    if is_batch and cur > 0:
                        tag += ".on_copy"
                    bad("place_outcome" + tag, f"place_task(t{ti}, strategy {si}={specs_[si]}) gave {out}, expected {exp}; occupancy {occ(m)} cap {m.cap}")
                    break
                if out == "ok":
                    m.tasks[ti] = si
                    if is_batch:
                        m.batches.setdefault(si, set()).add(ti)
                        if si in emptied:
                            flags["batch_reused"] = True
                    successes += 1
                    if copied:
                        flags["mutation_after_copy"] = True
                else:
                    if successes:
                        flags["refusal_after_success"] = True
                    if observe(w) != before:
                        bad("refused_place_changed_state", f"place_task(t{ti}, strategy {si}) raised {out} but getters changed from {before} to {observe(w)}")
                        break
            elif kind == "remove":
                ti = op[1]
                exp = "ok" if ti in m.tasks else "ValueError"
                try:
                    w.remove_task(EventTime(1, US), tasks[ti])
                    out = "ok"
                except (ValueError, RuntimeError) as e:
                    out = type(e).__name__
                if out != exp:
                    tag = ".batch_member_on_copy" if (ti in m.tasks and specs_[m.tasks[ti]][2] and cur > 0) else ""
                    bad("remove_outcome" + tag, f"remove_task(t{ti}) gave {out}, expected {exp}")
                    break
                if out == "ok":
                    si = m.tasks.pop(ti)
                    if specs_[si][2]:
                        m.batches[si].discard(ti)
                        if not m.batches[si]:
                            flags["batch_emptied"] = True
                            emptied.add(si)
                    if copied:
                        flags["mutation_after_copy"] = True
                elif observe(w) != before:
                    bad("refused_remove_changed_state", f"remove_task(t{ti}) raised but getters changed")
                    break
            elif kind == "load":
                pi, si = op[1], op[2] % len(specs_)
                if specs_[si][2] or pi in m.profiles:
                    continue
                exp = "ok" if fits(m, si) else "ValueError"
                try:
                    w.load_profile(profiles[pi], loaders[si])
                    out = "ok"
                except ValueError:
                    out = "ValueError"
                if out != exp:
                    bad("load_outcome", f"load_profile(p{pi}, strategy {si}) gave {out}, expected {exp}")
                    break
                if out == "ok":
                    m.profiles[pi] = si
                    m.pending.add(pi)
                    successes += 1
                elif observe(w) != before:
                    bad("refused_load_changed_state", f"load_profile raised but getters changed")
                    break
            elif kind == "evict":
                pi = op[1]
                exp = "ok" if pi in m.profiles else "ValueError"
                try:
                    w.evict_profile(profiles[pi])
                    out = "ok"
                except ValueError:
                    out = "ValueError"
                if out != exp:
                    bad("evict_outcome", f"evict_profile(p{pi}) gave {out}, expected {exp}")
                    break
                if out == "ok":
                    m.profiles.pop(pi)
                    if pi in m.pending:
                        flags["pending_profile_evicted"] = True
                    m.pending.discard(pi)
            elif kind == "step":
                m.pending.clear()
                w.step(EventTime(0, US), EventTime(5, US))
                got = observe(w)
                if got["pending_profiles"] or got["avail_profiles"] != sorted(m.profiles):
                    bad("profiles_after_step", f"after step: available {got['avail_profiles']} pending {got['pending_profiles']} model {sorted(m.profiles)}")
                    break
            elif kind == "copy":
                if len(workers) < 3:
                    cp = copy(w)
                    if observe(cp) != before:
                        a, b = observe(cp), before
                        diff = [k for k in b if a[k] != b[k]]
                        tag = ".batch_strategy" if diff == ["fits"] and all(specs_[i][2] for i in range(len(specs_)) if a["fits"][i] != b["fits"][i]) else ""
                        bad("copy_differs" + tag, f"copy() differs from the original in {diff}: {[(a[k], b[k]) for k in diff]}")
                        break
                    workers.append(cp)
                    models.append(m.clone(True))
                    copied = True
            elif kind == "deepcopy":
                if len(workers) < 3:
                    workers.append(deepcopy(w))
                    models.append(m.clone(False))
                    copied = True
            elif kind == "switch":
                cur = (cur + 1) % len(workers)
            if not all(compare(k, op) for k in range(len(workers))):
                break
        if not V:
            for k in range(len(workers)):
                for ti in list(models[k].tasks):
                    workers[k].remove_task(EventTime(2, US), tasks[ti])
                    si = models[k].tasks.pop(ti)
                    if specs_[si][2]:
                        models[k].batches[si].discard(ti)
                for pi in list(models[k].profiles):
                    workers[k].evict_profile(profiles[pi])
                    models[k].profiles.pop(pi)
                got = observe(workers[k])
                for t in TYPES:
                    if got[t] != (cap.get(t, 0), 0, cap.get(t, 0)):
                        bad("not_restored" + (".on_copy" if k else ""), f"object {k}: after removing everything {t}: {got[t]} capacity {cap.get(t, 0)}")
                        break
    except Exception as e:
        import traceback

        tb = traceback.extract_tb(e.__traceback__)
        where = next((f"{f.filename.split('/')[-1]}:{f.name}" for f in reversed(tb) if "/verif/" not in f.filename), "?")
        bad(f"raises.{type(e).__name__}.{where}", f"{type(e).__name__}: {e}")
    res_.nontrivial = any(flags.values())
    res_.classes = [k for k, v in flags.items() if v] or ["plain"]
    return res_


# ================================================================== (c) WorkerPools
def pools_strategy(tier):
    worker = st.dictionaries(st.sampled_from(TYPES), st.integers(1, 4), min_size=1, max_size=3)
    pools = st.lists(st.lists(worker, min_size=1, max_size=3), min_size=1, max_size=2)
    op = st.one_of(
        st.tuples(st.just("place"), st.integers(0, 5), st.integers(0, 1), st.one_of(st.none(), st.integers(0, 3)), st.one_of(st.none(), st.integers(0, 2))),
        st.tuples(st.just("place"), st.integers(0, 5), st.integers(0, 1), st.one_of(st.none(), st.integers(0, 3)), st.one_of(st.none(), st.integers(0, 2))),
        st.tuples(st.just("remove"), st.integers(0, 5)),
        st.tuples(st.just("remove"), st.integers(0, 5)),
        st.tuples(st.just("copy")),
        st.tuples(st.just("deepcopy")),
        st.tuples(st.just("switch")),
    )
    prof = st.lists(st.dictionaries(st.sampled_from(TYPES), st.integers(1, 3), min_size=1, max_size=2), min_size=1, max_size=3)
    return st.tuples(pools, st.lists(prof, min_size=6, max_size=6), st.lists(op, min_size=3, max_size=30), st.sampled_from([False, False, True])).map(
        lambda t: {"pools": t[0], "task_strategies": t[1], "ops": _listify(t[2]), "machine_local_ids": t[3]}
    )


def exec_pools(case):
    res_ = CaseResult()
    V = res_.violations
    tasks = []
    tstrats = []
    job_cache = []
    for i, demands in enumerate(case["task_strategies"]):
        ss = [ExecutionStrategy(resources=Resources({Resource(name=t, _id="any"): q for t, q in d.items()}), batch_size=1, runtime=EventTime(2 + j, US)) for j, d in enumerate(demands)]
        prof = WorkProfile(name=f"p{i}", execution_strategies=ExecutionStrategies(ss))
        job = Job(name=f"j{i}", profile=prof)
        job_cache.append(job)
        tasks.append(Task(name=f"t{i}", task_graph="g", job=job, deadline=EventTime(100, US)))
        tstrats.append(ss)
    pools = []
    caps = []  # (pool idx, worker idx) -> cap
    for pi, ws in enumerate(case["pools"]):
        workers = []
        for wi, capd in enumerate(ws):
            # machine-local ids ("GPU:0" on every machine, as a worker description may write them) give the workers of a
            # pool identical Resource keys; the default is a fresh uuid per resource
            mk = (lambda t: Resource(name=t, _id="0")) if case.get("machine_local_ids") else (lambda t: Resource(name=t))
            workers.append(Worker(name=f"P{pi}W{wi}", resources=Resources({mk(t): q for t, q in capd.items()})))
        pools.append(WorkerPool(name=f"P{pi}", workers=workers))
    live = [WorkerPools(pools)]
    # model: list over objects of {task idx: (pool idx, worker idx, demand)}
    models = [{}]
    cur = 0
    flags = {"refusal_after_success": False, "mutation_after_copy": False}
    successes = 0
    copied = False

    def bad(clause, detail):
        V.append(Violation(clause, f"{detail}; case={case}", f"pools.{clause}"))

    def occ(m, pi, wi):
        o = {}
        for ti, (p, w, d) in m.items():
            if (p, w) == (pi, wi):
                for t, q in d.items():
                    o[t] = o.get(t, 0) + q
        return o

    def fits(m, pi, wi, d):
        o = occ(m, pi, wi)
        capd = case["pools"][pi][wi]
        return all(o.get(t, 0) + q <= capd.get(t, 0) for t, q in d.items())

    def observe(wps):
        snap = {"placed": sorted(tasks.index(t) for t in wps.get_placed_tasks())}
        for pi, wp in enumerate(wps.worker_pools):
            snap[("pool_placed", pi)] = sorted(tasks.index(t) for t in wp.get_placed_tasks())
            pooled = wp.resources  # the pool-level ledger: sum of its workers' Resources
            util = {}
            for row in wp.get_utilization():
                name, _rid, alloc, avail = row.split(",")
                a0, v0 = util.get(name, (0, 0))
                util[name] = (a0 + int(float(alloc)), v0 + int(float(avail)))
            for t in TYPES:
                r = Resource(name=t, _id="any")
                snap[("pool_ledger", pi, t)] = (pooled.get_available_quantity(r), pooled.get_allocated_quantity(r), pooled.get_total_quantity(r))
                snap[("pool_utilization", pi, t)] = util.get(t, (0, 0))
            for wi, w in enumerate(wp.workers):
                for t in TYPES:
                    r = Resource(name=t, _id="any")
                    snap[(pi, wi, t)] = (w.resources.get_available_quantity(r), w.resources.get_allocated_quantity(r), w.resources.get_total_quantity(r))
                snap[("worker_placed", pi, wi)] = sorted(tasks.index(t) for t in w.get_placed_tasks())
        return snap

    def expected(m):
        snap = {"placed": sorted(m)}
        for pi, ws in enumerate(case["pools"]):
            snap[("pool_placed", pi)] = sorted(ti for ti, (p, w, d) in m.items() if p == pi)
            for t in TYPES:
                c = sum(capd.get(t, 0) for capd in ws)
                o_ = sum(occ(m, pi, wi).get(t, 0) for wi in range(len(ws)))
                snap[("pool_ledger", pi, t)] = (c - o_, o_, c)
                snap[("pool_utilization", pi, t)] = (o_, c - o_)
            for wi, capd in enumerate(ws):
                o = occ(m, pi, wi)
                for t in TYPES:
                    c = capd.get(t, 0)
                    snap[(pi, wi, t)] = (c - o.get(t, 0), o.get(t, 0), c)
                snap[("worker_placed", pi, wi)] = sorted(ti for ti, (p, w, d) in m.items() if (p, w) == (pi, wi))
        return snap

    try:
        for op in case["ops"]:
            kind = op[0]
            wps, m = live[cur], models[cur]
            before = observe(wps)
            plist = list(wps.worker_pools)
            if kind == "place":
                ti, pi, si, wi = op[1], op[2] % len(plist), op[3], op[4]
                if ti in m:
                    continue
                wp = plist[pi]
                nws = len(case["pools"][pi])
                strat = tstrats[ti][si % len(tstrats[ti])] if si is not None else None
                widx = wi % nws if wi is not None else None
                worker_id = wp.workers[widx].id if widx is not None else None
                # expected placement by the documented first-fit rules
                exp = None
                cand_workers = [widx] if widx is not None else list(range(nws))
                cand_strats = [strat] if strat is not None else tstrats[ti]
                if widx is not None or strat is not None:
                    # worker given: first fitting strategy; strategy given: first fitting worker
                    for w_ in cand_workers:
                        for s_ in cand_strats:
                            if fits(m, pi, w_, _demand(s_)):
                                exp = (w_, s_)
                                break
                        if exp:
                            break
                else:
                    for w_ in cand_workers:
                        for s_ in cand_strats:
                            if fits(m, pi, w_, _demand(s_)):
                                exp = (w_, s_)
                                break
                        if exp:
                            break
                try:
                    ok = wp.place_task(tasks[ti], execution_strategy=strat, worker_id=worker_id)
                    out = "placed" if ok else "refused"
                except Exception as e:
                    out = f"raises {type(e).__name__}: {e}"
                want = "placed" if exp else "refused"
                if out.startswith("raises") and not exp and observe(wps) == before:
                    out = "refused"  # refused by raising, nothing changed: conservation holds (C04 does not fix the error type)
                if out != want:
                    tag = ".worker_id_without_strategy" if (widx is not None and strat is None) else ""
                    bad("place_outcome" + tag, f"pool {pi}.place_task(t{ti}, strategy={si}, worker={widx}) gave {out}, expected {want} ({exp and exp[0]})")
                    break
                if exp:
                    m[ti] = (pi, exp[0], _demand(exp[1]))
                    successes += 1
                    if copied:
                        flags["mutation_after_copy"] = True
                    # the allocation reported for the task names instances of that one worker only
                    alloc = wp.get_allocated_resources(tasks[ti])
                    wobj = wp.workers[exp[0]]
                    ids = {r.id for r, _q in wobj.resources.resources}
                    got = {}
                    for r, q in alloc:
                        got[r.name] = got.get(r.name, 0) + q
                    if any(r.id not in ids for r, _q in alloc) or got != _demand(exp[1]):
                        bad("allocation_of_task", f"t{ti} on worker {exp[0]}: allocation {alloc}, demand {_demand(exp[1])}")
                        break
                else:
                    if successes:
                        flags["refusal_after_success"] = True
                    if observe(wps) != before:
                        bad("refused_place_changed_state", f"pool.place_task(t{ti}) returned False / raised but the getters changed")
                        break
            elif kind == "remove":
                ti = op[1]
                exp = "ok" if ti in m else "ValueError"
                target = plist[m[ti][0]] if ti in m else plist[0]
                try:
                    target.remove_task(EventTime(1, US), tasks[ti])
                    out = "ok"
                except ValueError:
                    out = "ValueError"
                if out != exp:
                    bad("remove_outcome", f"remove_task(t{ti}) gave {out}, expected {exp}")
                    break
                if out == "ok":
                    m.pop(ti)
                    if copied:
                        flags["mutation_after_copy"] = True
                elif observe(wps) != before:
                    bad("refused_remove_changed_state", f"remove_task(t{ti}) raised but the getters changed")
                    break
            elif kind == "copy":
                if len(live) < 3:
                    cp = copy(wps)
                    if observe(cp) != before:
                        a = observe(cp)
                        bad("copy_differs", f"copy() differs: {[(k, a[k], before[k]) for k in before if a[k] != before[k]]}")
                        break
                    if [p.id for p in cp.worker_pools] != [p.id for p in wps.worker_pools] or [w.id for p in cp.worker_pools for w in p.workers] != [w.id for p in wps.worker_pools for w in p.workers]:
                        bad("copy_ids", "copy() changed pool/worker ids")
                        break
                    live.append(cp)
                    models.append(dict(m))
                    copied = True
            elif kind == "deepcopy":
                if len(live) < 3:
                    dp = deepcopy(wps)
                    live.append(dp)
                    models.append({})
                    copied = True
            elif kind == "switch":
                cur = (cur + 1) % len(live)
            stop = False
            for k in range(len(live)):
                got, exp_ = observe(live[k]), expected(models[k])
                if got != exp_:
                    diff = [(key, got[key], exp_[key]) for key in exp_ if got[key] != exp_[key]]
                    bad("getters" + (".on_copy" if k else ""), f"after {op} object {k}: observed/expected differ: {diff[:4]}")
                    stop = True
                    break
            if stop:
                break
    except Exception as e:
        import traceback

        tb = traceback.extract_tb(e.__traceback__)
        where = next((f"{f.filename.split('/')[-1]}:{f.name}" for f in reversed(tb) if "/verif/" not in f.filename), "?")
        bad(f"raises.{type(e).__name__}.{where}", f"{type(e).__name__}: {e}")
    res_.nontrivial = any(flags.values())
    res_.classes = [k for k, v in flags.items() if v] or ["plain"]
    return res_


def _demand(strategy):
    d = {}
    for r, q in strategy.resources._resource_vector.items():
        d[r.name] = d.get(r.name, 0) + q
    return d


# ================================================================== end-to-end clause
def e2e_worlds(tier):
    return specs.worlds(contention=True, max_jobs=6)


CHECKS = [
    Check("resources_machine", case_timeout=60, timeout_is_violation=True, execute=exec_res, strategy=res_strategy, budget={"quick": 3000, "thorough": 120000}),
    Check("any_capacity_ledger", case_timeout=60, timeout_is_violation=True, execute=exec_any_cap, strategy=any_cap_strategy, budget={"quick": 2000, "thorough": 60000}),
    Check("worker_machine", case_timeout=60, timeout_is_violation=True, execute=exec_worker, strategy=worker_strategy, budget={"quick": 3000, "thorough": 120000}),
    Check("pools_machine", case_timeout=60, timeout_is_violation=True, execute=exec_pools, strategy=pools_strategy, budget={"quick": 2000, "thorough": 80000}),
    Check("sim_ledger", sim_execute([J.judge_c04_e2e], lambda rec: rec.mon.idle_checks > 1 and rec.mon.ledger_ops > 2), strategy=e2e_worlds,
          budget={"quick": 1000, "thorough": 30000}),
    Check("scripted_sim_ledger", sim_execute([J.judge_c04_e2e], lambda rec: rec.mon.idle_checks > 1 and rec.mon.ledger_ops > 2, max_steps=1500),
          strategy=lambda tier: specs.scripted_worlds(batching=True, contention=True), budget={"quick": 400, "thorough": 20000}),
]
