"""C15 - Clockwork batching: full, same-model, loaded, on-time batches only (stateful across invocations)."""
from hypothesis import strategies as st

from pbt import build, env
from pbt.runner import CaseResult, Check, Violation

env.setup()
from utils import EventTime  # noqa: E402
from workers import Worker, WorkerPool, WorkerPools  # noqa: E402
from workload import (  # noqa: E402
    BatchStrategy,
    ExecutionStrategies,
    ExecutionStrategy,
    Job,
    Placement,
    Resource,
    Resources,
    Task,
    TaskGraph,
    TaskState,
    Workload,
    WorkProfile,
)

PROPERTY = "C15"
LEVEL = "exploration"
RULE = (
    "Hypothesis operation lists interpreted as a history of the policy's environment: submit k requests of model m with deadline d, "
    "advance time (running batches finish and free their worker, loading models become available), load (taking 0-9 us) / evict a model on a worker, invoke schedule() and apply its "
    "answer exactly as the simulator does (cancel, schedule + place + start, deferral when the worker refuses); 1-3 models with 2-4 "
    "batch-size strategies, 1-3 workers, both goals. Every returned batch is judged against a shadow ledger and the request history. "
    "Non-trivial = a history with >= 2 invocations and >= 1 batch of size >= 2 or >= 1 expired request; distinct by case hash."
)
ASSUMPTIONS = ["the start-up loading phase (commented out in simulator.py) is performed by the harness through scheduler.start()",
               "a quarter of the histories run with scheduler_run_load and 1-3 units of RAM per worker (the policy decides loads and evictions, the harness applies them as the simulator would); in the others models are loaded/evicted by explicit history operations"]
US = EventTime.Unit.US


def T(x):
    return EventTime(int(x), US)


def us(t):
    return t.time * int(t.unit.value)


def history_strategy(tier):
    @st.composite
    def s(draw):
        n_workers = draw(st.integers(1, 3))
        workers = [{"GPU": draw(st.integers(1, 3))} for _ in range(n_workers)]
        models = []
        for m in range(draw(st.integers(1, 3))):
            sizes = sorted(draw(st.sets(st.sampled_from([1, 2, 4, 8]), min_size=2, max_size=4)))
            base = draw(st.integers(1, 4))
            strategies = [{"batch": b, "runtime": base + i * draw(st.integers(1, 3)), "gpu": draw(st.integers(1, 2))} for i, b in enumerate(sizes)]
            if draw(st.booleans()):
                strategies = list(draw(st.permutations(strategies)))  # a profile may list its strategies in any order
            models.append({"name": f"m{m}", "strategies": strategies, "load_gpu": draw(st.integers(0, 1)), "preloaded": draw(st.booleans()),
                           # a model takes time to load: until then it is pending on the worker, not loaded
                           "load_time": draw(st.sampled_from([0, 0, 0, 0, 0, 0, 2, 5, 9]))})
        op = st.one_of(
            st.tuples(st.just("submit"), st.integers(0, 2), st.integers(1, 5), st.integers(-1, 14)),
            st.tuples(st.just("submit"), st.integers(0, 2), st.integers(1, 5), st.integers(2, 10)),
            # a late arrival that is more urgent than what is queued (the per-strategy queues are kept sorted by deadline)
            st.tuples(st.just("submit"), st.integers(0, 2), st.integers(1, 2), st.integers(1, 4)),
            st.tuples(st.just("schedule")),
            st.tuples(st.just("schedule")),
            st.tuples(st.just("advance"), st.integers(1, 5)),
            st.tuples(st.just("load"), st.integers(0, 2), st.integers(0, 2)),
            st.tuples(st.just("evict"), st.integers(0, 2), st.integers(0, 2)),
        )
        ops = draw(st.lists(op, min_size=4, max_size=30))
        case = {"seed": draw(st.integers(0, 999)), "workers": workers, "models": models, "goal": draw(st.sampled_from(["clockwork", "least_slack"])),
                "ops": [list(o) for o in ops]}
        if draw(st.integers(0, 3)) == 0:
            # --scheduler_run_load: the policy itself decides model loads and evictions; little memory makes it evict
            case["run_load"] = True
            case["ram"] = draw(st.integers(1, 3))
        return case

    return s()


def execute(case):
    res = CaseResult()
    V = res.violations
    env.reset_case(case["seed"])
    run_load = bool(case.get("run_load"))
    flags = build.make_flags(random_seed=case["seed"], scheduler="Clockwork", scheduler_run_load=run_load)
    workers = [Worker(name=f"W{i}", resources=Resources({Resource(name="GPU"): w["GPU"], Resource(name="RAM"): case.get("ram", 4)})) for i, w in enumerate(case["workers"])]
    pool = WorkerPool(name="P0", workers=workers)
    wps = WorkerPools([pool])
    profiles, jobs = [], []
    for m in case["models"]:
        ex = ExecutionStrategies([
            ExecutionStrategy(resources=Resources({Resource(name="GPU", _id="any"): s["gpu"]}), batch_size=s["batch"], runtime=T(s["runtime"])) for s in m["strategies"]
        ])
        ld = ExecutionStrategies([ExecutionStrategy(resources=Resources({Resource(name="RAM", _id="any"): 1}), batch_size=1, runtime=T(m.get("load_time", 0)))])
        p = WorkProfile(name=m["name"], execution_strategies=ex, loading_strategies=ld)
        profiles.append(p)
        jobs.append(Job(name=m["name"], profile=p))
    import schedulers as S

    policy = S.ClockworkScheduler(runtime=T(0), goal=case["goal"], _flags=flags)
    wl = Workload.from_task_graphs({}, _flags=flags)
    wl._work_profiles = set(profiles)
    now = 0
    # start-up phase: register every model, load the pre-loaded ones
    for pl in policy.start(T(0), set(profiles), wps):
        if case["models"][profiles.index(pl.work_profile)]["preloaded"]:
            try:
                pool.load_profile(pl.work_profile, pl.loading_strategy, pl.worker_id)
            except ValueError:
                pass
    pool.step(T(0), T(0))
    requests = {}  # task unique name -> dict(task, model, placed=0, cancelled=False, hopeless_at=None)
    counter = [0]
    invocations = 0
    big_batch = False
    expiries = 0
    placed_total = 0
    profile_ops = 0
    pending_invocations = 0

    def bad(clause, detail):
        V.append(Violation(clause, f"{detail}; case={case}", f"clockwork.{clause}.{case['goal']}"))

    def free_gpu(w):
        return w.resources.get_available_quantity(Resource(name="GPU", _id="any"))

    try:
        for op in case["ops"]:
            kind = op[0]
            if kind == "submit":
                m = op[1] % len(profiles)
                for _ in range(op[2]):
                    i = counter[0]
                    counter[0] += 1
                    t = Task(name=f"r{i}", task_graph=f"req{i}", job=jobs[m], deadline=T(max(0, now + op[3])), release_time=T(now))
                    wl.add_task_graph(TaskGraph(name=f"req{i}", tasks={t: []}))
                    t.release(T(now))
                    requests[t.unique_name] = {"task": t, "model": m, "placed": 0, "cancelled": False, "hopeless": False}
            elif kind == "advance":
                dt = op[1]
                done = pool.step(T(now), T(dt))
                now += dt
                for t in done:
                    pool.remove_task(T(now), t)
                    t.finish(T(now))
                # retry deferred placements as the simulator does
                for r in requests.values():
                    t = r["task"]
                    if t.state == TaskState.SCHEDULED:
                        pl = t.current_placement
                        if pool.place_task(t, execution_strategy=pl.execution_strategy, worker_id=pl.worker_id):
                            t.start(T(now))
            elif kind == "load":
                m, w = op[1] % len(profiles), workers[op[2] % len(workers)]
                if w.is_available(profiles[m]).is_invalid():
                    ls = profiles[m].loading_strategies[0]
                    if w.can_accomodate_strategy(ls):
                        w.load_profile(profiles[m], ls)
                        w.step(T(now), T(0))
            elif kind == "evict":
                m, w = op[1] % len(profiles), workers[op[2] % len(workers)]
                busy = any(t.profile == profiles[m] for t in w.get_placed_tasks())
                if not w.is_available(profiles[m]).is_invalid() and not busy:
                    w.evict_profile(profiles[m])
            elif kind == "schedule":
                invocations += 1
                loaded = {w.id: [p.name for p in w.get_available_profiles()] for w in workers}
                free = {w.id: free_gpu(w) for w in workers}
                before_states = {n: r["task"].state.name for n, r in requests.items()}
                # requests that are hopeless at this invocation
                for r in requests.values():
                    t = r["task"]
                    if t.state == TaskState.RELEASED:
                        fastest = min(us(s.runtime) for s in t.available_execution_strategies)
                        if us(t.deadline) < now + fastest:
                            r["hopeless"] = True
                def live():
                    return {w.name: (free_gpu(w), w.resources.get_available_quantity(Resource(name="RAM", _id="any")),
                                     sorted(p_.name for p_ in w.get_available_profiles()), sorted(p_.name for p_ in w.get_pending_profiles())) for w in workers}

                live_before = live()
                if any(w.get_pending_profiles() for w in workers):
                    pending_invocations += 1
                placements = policy.schedule(T(now), wl, wps)
                if {w.id: free_gpu(w) for w in workers} != free:
                    bad("side_effect", f"schedule() changed the live workers: free GPUs {free} -> { {w.id: free_gpu(w) for w in workers} }")
                elif live() != live_before:
                    bad("side_effect", f"schedule() changed the live workers (free GPU, free RAM, loaded, pending): {live_before} -> {live()}")
                # a model evicted by this very decision is not loaded any more for the batches of the same decision (the
                # simulator applies evictions first)
                for p in placements:
                    if p.placement_type == Placement.PlacementType.EVICT_WORK_PROFILE:
                        for w in workers:
                            if w.id == p.worker_id and p.work_profile.name in loaded[w.id]:
                                loaded[w.id] = [x for x in loaded[w.id] if x != p.work_profile.name]
                batches = {}
                decided = {}
                for p in placements:
                    if p.placement_type in (Placement.PlacementType.CANCEL_TASK, Placement.PlacementType.PLACE_TASK):
                        decided.setdefault(p.task.unique_name, []).append(p.placement_type.name + ("" if p.placement_type == Placement.PlacementType.CANCEL_TASK or p.is_placed() else "(unplaced)"))
                for name, ds in decided.items():
                    if len(ds) > 1:
                        bad("several_decisions_for_one_request", f"t={now}: {name} answered with {ds} in one invocation")
                for p in placements:
                    if p.placement_type == Placement.PlacementType.CANCEL_TASK:
                        r = requests.get(p.task.unique_name)
                        if r is None or before_states.get(p.task.unique_name) != "RELEASED":
                            bad("cancel_of_unknown_or_started_request", f"t={now}: cancellation of {p.task.unique_name} in state {before_states.get(p.task.unique_name)}")
                            continue
                        fastest = min(us(s.runtime) for s in p.task.available_execution_strategies)
                        if us(p.task.deadline) >= now + fastest:
                            bad("feasible_request_cancelled", f"t={now}: {p.task.unique_name} cancelled although deadline {us(p.task.deadline)} >= now + fastest {fastest}")
                        r["cancelled"] = True
                        expiries += 1
                    elif p.placement_type == Placement.PlacementType.PLACE_TASK and p.is_placed():
                        s = p.execution_strategy
                        if not isinstance(s, BatchStrategy):
                            bad("placement_without_batch_strategy", f"t={now}: {p.task.unique_name} placed with {s}")
                            continue
                        batches.setdefault(s.id, {"strategy": s, "members": [], "worker": p.worker_id, "times": set()})
                        b = batches[s.id]
                        b["members"].append(p.task)
                        b["times"].add(us(p.placement_time))
                        if p.worker_id != b["worker"]:
                            bad("batch_spans_workers", f"t={now}: batch {s.id} placed on {b['worker']} and {p.worker_id}")
                for r in requests.values():
                    if r["hopeless"] and r["task"].state == TaskState.RELEASED and not r["cancelled"] and before_states[r["task"].unique_name] == "RELEASED":
                        bad("hopeless_request_not_cancelled", f"t={now}: {r['task'].unique_name} (deadline {us(r['task'].deadline)}) cannot meet its deadline but was not cancelled")
                        break
                for bid, b in batches.items():
                    s = b["strategy"]
                    names = [t.unique_name for t in b["members"]]
                    models_ = {requests[n]["model"] for n in names if n in requests}
                    if len(models_) != 1 or any(n not in requests for n in names):
                        bad("batch_mixes_models", f"t={now}: batch {names} has models {models_}")
                        continue
                    model = profiles[models_.pop()]
                    own = [(o.batch_size, us(o.runtime), o.resources.get_total_quantity(Resource(name="GPU", _id="any"))) for o in model.execution_strategies]
                    sig = (s.batch_size, us(s.runtime), s.resources.get_total_quantity(Resource(name="GPU", _id="any")))
                    if sig not in own:
                        bad("foreign_batch_strategy", f"t={now}: batch strategy {sig} is not one of model {model.name}: {own}")
                    if len(b["members"]) != s.batch_size or len(set(names)) != len(names):
                        bad("batch_not_full", f"t={now}: batch of {len(b['members'])} requests {names} with a strategy of batch size {s.batch_size}")
                    if s.batch_size >= 2:
                        big_batch = True
                    w = next((x for x in workers if x.id == b["worker"]), None)
                    if w is None:
                        bad("unknown_worker", f"t={now}: batch on worker {b['worker']}")
                        continue
                    if model.name not in loaded[w.id]:
                        bad("model_not_loaded", f"t={now}: batch {names} of model {model.name} on {w.name} where only {loaded[w.id]} are loaded")
                    need = sig[2]
                    if need > free[w.id]:
                        bad("worker_cannot_hold_batch", f"t={now}: batch {names} needs {need} GPU on {w.name} with {free[w.id]} free (after earlier batches of this invocation)")
                    free[w.id] -= need
                    if b["times"] != {now}:
                        bad("batch_time", f"t={now}: batch placed at {b['times']}")
                    dl = min(us(t.deadline) for t in b["members"])
                    if now + us(s.runtime) > dl:
                        bad("batch_misses_deadline", f"t={now}: batch {names} runtime {us(s.runtime)} but earliest deadline {dl}")
                    for t in b["members"]:
                        r = requests[t.unique_name]
                        r["placed"] += 1
                        placed_total += 1
                        if r["placed"] > 1 or before_states[t.unique_name] != "RELEASED":
                            bad("request_placed_twice", f"t={now}: {t.unique_name} placed {r['placed']}x (state before: {before_states[t.unique_name]})")
                        if r["hopeless"] or r["cancelled"]:
                            bad("expired_request_placed", f"t={now}: {t.unique_name} placed although it was hopeless/cancelled earlier")
                if V:
                    break
                # apply the answer as the simulator does (evictions before loads before task placements, as its event
                # priorities order them)
                for p in placements:
                    if p.placement_type == Placement.PlacementType.EVICT_WORK_PROFILE:
                        pool.evict_profile(p.work_profile, p.worker_id)
                        profile_ops += 1
                for p in placements:
                    if p.placement_type == Placement.PlacementType.LOAD_WORK_PROFILE:
                        pool.load_profile(p.work_profile, p.loading_strategy, p.worker_id)
                        profile_ops += 1
                pool.step(T(now), T(0))
                for p in placements:
                    if p.placement_type == Placement.PlacementType.CANCEL_TASK:
                        tg = wl.get_task_graph(p.task.task_graph)
                        if p.task.state in (TaskState.RELEASED, TaskState.VIRTUAL, TaskState.SCHEDULED):
                            tg.cancel(p.task, T(now))
                    elif p.placement_type == Placement.PlacementType.PLACE_TASK and p.is_placed():
                        p.task.schedule(T(now), p)
                        if pool.place_task(p.task, execution_strategy=p.execution_strategy, worker_id=p.worker_id):
                            p.task.start(T(now))
    except Exception as e:
        import traceback

        tb = traceback.extract_tb(e.__traceback__)
        where = next((f"{f.filename.split('/')[-1]}:{f.name}" for f in reversed(tb) if "/verif/" not in f.filename), "harness")
        if where == "harness":
            raise
        bad(f"raises.{type(e).__name__}.{where}", f"{type(e).__name__}: {e}")
    res.nontrivial = invocations >= 2 and (big_batch or expiries > 0)
    res.counters = {"invocations": invocations, "requests": len(requests), "placed": placed_total, "cancelled": expiries}
    res.classes = [f"goal={case['goal']}", "big_batch" if big_batch else "no_big_batch", "expiry" if expiries else "no_expiry"]
    if pending_invocations:
        res.classes.append("invocation_while_a_model_is_loading")
    if run_load:
        res.classes.append("run_load" + ("_with_profile_decisions" if profile_ops else ""))
    seen, outv = set(), []
    for v in V:
        if v.sig not in seen:
            seen.add(v.sig)
            outv.append(v)
    res.violations = outv[:4]
    return res


CHECKS = [Check("clockwork_history", execute, strategy=history_strategy, budget={"quick": 6000, "thorough": 80000})]
