"""C13 - EDF, FIFO and LSF honour their priority order (no priority inversion)."""
from hypothesis import strategies as st

from pbt import build, env, specs, statebuilder
from pbt.runner import CaseResult, Check, Violation

env.setup()
from workload import Placement  # noqa: E402

PROPERTY = "C13"
LEVEL = "exploration"
RULE = (
    "Hypothesis scheduler inputs built through the public API: 1-8 released single-task graphs with arbitrary deadlines / "
    "release times / runtimes (ties included), 1-3 strategies each, on 1-3 single-worker pools partially occupied by running "
    "tasks; one invocation of EDF/FIFO/LSF; for every task left unplaced an independent fit check (initial occupancy + placed "
    "tasks of higher-or-equal priority) must find no strategy x pool that fits. Non-trivial = >= 3 tasks with >= 1 unplaced and "
    ">= 1 placed; distinct by case hash. greedy_multiworker: the same inputs on 1-2 pools of 1-3 workers; a greedy Placement names the pool "
    "only, so an unplaced task is an inversion only if it fits a worker under EVERY assignment of the higher-or-equal priority placements "
    "of some pool to that pool's workers (exhaustive assignment search); non-trivial = a pool with >= 2 workers, >= 1 placed, >= 1 unplaced."
)
ASSUMPTIONS = ["greedy_invocation: single-worker pools, so first-fit inside a pool is unambiguous (as the property's observation point prescribes)", "tie order is not asserted",
               "greedy_multiworker: sound for any within-pool placement rule, not complete; cases whose assignment search exceeds 60 000 nodes are discarded"]


def case_strategy(tier, single=True):
    @st.composite
    def s(draw):
        cluster = draw(specs.clusters(max_pools=3 if single else 2, single_worker_pools=single))
        n_prof = draw(st.integers(1, 4))
        profiles = [draw(specs.profile_for(cluster, f"pr{i}", feasible=True, max_runtime=9, contention=draw(st.booleans()), zero_quantity=True)) for i in range(n_prof)]
        now = draw(st.integers(5, 30))
        n = draw(st.integers(1, 8))
        graphs = []
        for i in range(n):
            graphs.append({
                "name": f"T{i}",
                "jobs": [{"name": f"T{i}_j", "profile": draw(st.integers(0, n_prof - 1)), "children": []}],
                "release_time": draw(st.integers(0, now)) if draw(st.booleans()) else draw(st.sampled_from([0, now, now - 1])),
                "deadline": now + draw(st.one_of(st.integers(-3, 40), st.sampled_from([10, 10, 20]))),
            })
            if draw(st.integers(0, 7)) == 0:
                graphs[-1]["deadline_ms"] = draw(st.integers(1, 3))  # a far deadline written in milliseconds
        k = draw(st.integers(0, 3))
        running = []
        for i in range(k):
            graphs.append({"name": f"R{i}", "jobs": [{"name": f"R{i}_j", "profile": draw(st.integers(0, n_prof - 1)), "children": []}],
                           "release_time": 0, "deadline": now + 50})
            running.append({"graph": f"R{i}", "job": f"R{i}_j", "pool": draw(st.integers(0, 2)), "worker": 0 if single else draw(st.integers(0, 2)), "strategy": draw(st.integers(0, 2)),
                            "elapsed": draw(st.integers(0, 5))})
        pol = draw(st.sampled_from(["EDF", "FIFO", "LSF"]))
        return {"seed": draw(st.integers(0, 999)), "now": now, "cluster": cluster, "profiles": profiles, "graphs": graphs, "running": running,
                "policy": {"name": pol, "enforce_deadlines": draw(st.booleans()) if pol != "LSF" else False,
                           "preemptive": draw(st.sampled_from([False, False, True])) if pol != "FIFO" else False}}  # FIFO refuses preemption

    return s()


def execute(case):
    res = CaseResult()
    V = res.violations
    st_ = statebuilder.build_state(case)
    flags = st_["flags"]
    policy = build.build_policy(case["policy"], flags)
    wps = st_["worker_pools"]
    now = st_["now"]
    pools = list(wps.worker_pools)
    cap = {}
    free0 = {}
    for p in pools:
        w = p.workers[0]
        cap[p.id] = dict(st_["info"]["workers"][w.id]["capacity"])
        # a preemptive policy re-plans on an emptied copy of the cluster: the running tasks compete again, with what is
        # left of their runtime
        free0[p.id] = dict(cap[p.id]) if case["policy"].get("preemptive") else statebuilder.worker_free(w)
    try:
        placements = policy.schedule(now, st_["workload"], wps)
    except Exception as e:
        V.append(Violation("schedule_raises", f"{case['policy']['name']}.schedule raised {type(e).__name__}: {e}; case={case}", f"greedy.schedule_raises.{type(e).__name__}"))
        return res
    pname = case["policy"]["name"]
    nowu = statebuilder.us(now)

    def key(t):
        if pname == "EDF":
            return statebuilder.us(t.deadline)
        if pname == "FIFO":
            return statebuilder.us(t.release_time)
        return statebuilder.us(t.deadline) - nowu - statebuilder.us(t.remaining_time)

    placed, unplaced, cancelled = [], [], []
    for p in placements:
        if p.placement_type == Placement.PlacementType.CANCEL_TASK:
            cancelled.append(p.task)
        elif p.placement_type == Placement.PlacementType.PLACE_TASK:
            if p.is_placed():
                placed.append((p.task, p.worker_pool_id, p.execution_strategy))
            else:
                unplaced.append(p.task)
    # joint feasibility of what was placed (single-worker pools)
    used = {pid: {} for pid in cap}
    for t, pid, s in placed:
        if pid not in cap or s is None:
            V.append(Violation("bad_placement", f"{t.unique_name} placed on unknown pool / without strategy; case={case}", "greedy.bad_placement"))
            return res
        for r, q in statebuilder.demand_of(s).items():
            used[pid][r] = used[pid].get(r, 0) + q
    for pid in cap:
        for r, q in used[pid].items():
            if q > free0[pid].get(r, 0):
                V.append(Violation("placed_tasks_exceed_capacity",
                                   f"{pname} placed {[(t.unique_name, statebuilder.demand_of(s)) for t, p2, s in placed if p2 == pid]} on a pool with free {free0[pid]}; case={case}",
                                   f"greedy.placed_tasks_exceed_capacity.{pname}"))
                return res
    # no priority inversion
    for u in unplaced:
        ku = key(u)
        occ = {pid: {} for pid in cap}
        for t, pid, s in placed:
            if key(t) <= ku:
                for r, q in statebuilder.demand_of(s).items():
                    occ[pid][r] = occ[pid].get(r, 0) + q
        for s in u.available_execution_strategies:
            d = statebuilder.demand_of(s)
            for pid in cap:
                if all(occ[pid].get(r, 0) + q <= free0[pid].get(r, 0) for r, q in d.items()):
                    later = [(t.unique_name, key(t), statebuilder.demand_of(s2)) for t, p2, s2 in placed if key(t) > ku and p2 == pid]
                    V.append(
                        Violation(
                            "priority_inversion",
                            f"{pname}: {u.unique_name} (key {ku}) left unplaced although strategy {d} fits pool with free {free0[pid]} after the "
                            f"higher-or-equal priority placements {occ[pid]}; lower-priority tasks placed there: {later}; case={case}",
                            f"greedy.priority_inversion.{pname}",
                        )
                    )
                    return res
    res.nontrivial = len(placed) + len(unplaced) >= 3 and len(unplaced) >= 1 and len(placed) >= 1
    res.classes = [f"policy={pname}", f"unplaced={min(len(unplaced), 3)}"]
    if any(g.get("deadline_ms") for g in case["graphs"]):
        res.classes.append("mixed_time_units")
    if case["policy"].get("preemptive"):
        res.classes.append("preemptive")
        if any(t.state.name == "RUNNING" for t, _p, _s in placed) or any(t.state.name == "RUNNING" for t in unplaced):
            res.classes.append("running_task_competes")
    keys = [key(t) for t, _p, _s in placed] + [key(t) for t in unplaced]
    if len(keys) != len(set(keys)):
        res.classes.append("key_tie")
    return res


def _assignments(tasks, workers_free, budget):
    """Every way of putting `tasks` (demand dicts) on the workers of one pool within their free quantities (DFS)."""
    out = []
    free = [dict(f) for f in workers_free]

    def rec(i):
        if budget[0] <= 0:
            return
        budget[0] -= 1
        if i == len(tasks):
            out.append([dict(f) for f in free])
            return
        d = tasks[i]
        for f in free:
            if all(f.get(r, 0) >= q for r, q in d.items()):
                for r, q in d.items():
                    f[r] = f.get(r, 0) - q
                rec(i + 1)
                for r, q in d.items():
                    f[r] += q

    rec(0)
    return out


def execute_multi(case):
    """Pools with several workers. A greedy Placement names the pool only, so the oracle quantifies over the worker choice:
    u is wrongly left unplaced when there is a pool in which, for EVERY way of putting the higher-or-equal priority tasks
    reported on that pool (with their reported strategies) on its workers, some strategy of u still fits some worker."""
    res = CaseResult()
    V = res.violations
    st_ = statebuilder.build_state(case)
    policy = build.build_policy(case["policy"], st_["flags"])
    wps = st_["worker_pools"]
    now = st_["now"]
    pools = list(wps.worker_pools)
    free0 = {}
    for p in pools:
        free0[p.id] = [dict(st_["info"]["workers"][w.id]["capacity"]) if case["policy"].get("preemptive") else statebuilder.worker_free(w) for w in p.workers]
    try:
        placements = policy.schedule(now, st_["workload"], wps)
    except Exception as e:
        V.append(Violation("schedule_raises", f"{case['policy']['name']}.schedule raised {type(e).__name__}: {e}; case={case}", f"greedy.schedule_raises.{type(e).__name__}"))
        return res
    pname = case["policy"]["name"]
    nowu = statebuilder.us(now)

    def key(t):
        if pname == "EDF":
            return statebuilder.us(t.deadline)
        if pname == "FIFO":
            return statebuilder.us(t.release_time)
        return statebuilder.us(t.deadline) - nowu - statebuilder.us(t.remaining_time)

    placed, unplaced = [], []
    for p in placements:
        if p.placement_type == Placement.PlacementType.PLACE_TASK:
            if p.is_placed():
                if p.worker_pool_id not in free0 or p.execution_strategy is None:
                    V.append(Violation("bad_placement", f"{p.task.unique_name} placed on unknown pool / without strategy; case={case}", "greedy.bad_placement"))
                    return res
                placed.append((p.task, p.worker_pool_id, p.execution_strategy))
            else:
                unplaced.append(p.task)
    budget = [60000]
    # joint feasibility: some worker assignment carries everything that was placed on a pool
    for pid in free0:
        here = [statebuilder.demand_of(s) for _t, p2, s in placed if p2 == pid]
        if here and not _assignments(here, free0[pid], budget) and budget[0] > 0:
            V.append(Violation("placed_tasks_exceed_capacity", f"{pname} placed {[(t.unique_name, statebuilder.demand_of(s)) for t, p2, s in placed if p2 == pid]} on a pool "
                               f"whose workers have free {free0[pid]}: no assignment to workers fits; case={case}", f"greedy.placed_tasks_exceed_capacity.multiworker.{pname}"))
            return res
    for u in unplaced:
        ku = key(u)
        demands = [statebuilder.demand_of(s) for s in u.available_execution_strategies]
        for pid in free0:
            hp = [statebuilder.demand_of(s) for t, p2, s in placed if p2 == pid and key(t) <= ku]
            worlds = _assignments(hp, free0[pid], budget)
            if budget[0] <= 0:
                res.discard = "assignment_enumeration_budget"
                return res
            if worlds and all(any(all(f.get(r, 0) >= q for r, q in d.items()) for f in world for d in demands) for world in worlds):
                V.append(Violation("priority_inversion", f"{pname}: {u.unique_name} (key {ku}) left unplaced although, however the higher-or-equal priority placements {hp} are put on "
                                   f"the workers of pool {pid} (free {free0[pid]}), one of its strategies {demands} fits a worker; case={case}", f"greedy.priority_inversion.multiworker.{pname}"))
                return res
    multi = any(len(f) > 1 for f in free0.values())
    res.nontrivial = multi and len(placed) >= 1 and len(unplaced) >= 1
    res.classes = [f"policy={pname}", f"unplaced={min(len(unplaced), 3)}", f"max_workers={max(len(f) for f in free0.values())}"]
    return res


CHECKS = [Check("greedy_invocation", case_timeout=60, timeout_is_violation=True, execute=execute, strategy=case_strategy, budget={"quick": 4000, "thorough": 150000}),
          Check("greedy_multiworker", case_timeout=60, timeout_is_violation=True, execute=execute_multi, strategy=lambda tier: case_strategy(tier, single=False),
                budget={"quick": 3000, "thorough": 100000})]
