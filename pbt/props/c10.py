"""C10 - every policy returns a complete, feasible, side-effect-free decision."""
from hypothesis import strategies as st

from pbt import env, schedcall as SC, specs
from pbt.runner import CaseResult, Check, Violation

env.setup()
from utils import EventTime  # noqa: E402
from workload import BatchStrategy, Placement, TaskState  # noqa: E402

PROPERTY = "C10"
LEVEL = "exploration"
RULE = (
    "(a) Hypothesis scheduler inputs built through the public API as the simulator would (mixtures of completed, running, "
    "scheduled-for-later and released tasks of small DAGs on partially occupied heterogeneous 1-2 pools x 1-2 workers), one "
    "invocation of each of the eight bundled policies under generated options (incl. congested short plan-ahead windows for "
    "TetriSched-Gurobi and commitments that can no longer be kept); (b) every invocation inside generated end-to-end "
    "runs of the greedy policies and the MILP planners. Non-trivial = an invocation with >= 2 offered tasks and a non-empty "
    "cluster or a previously scheduled task; distinct by case hash."
)
ASSUMPTIONS = [
    "solver model-size licence errors (Gurobi restricted licence, CPLEX community edition) are discarded and counted",
    "Clockwork need not answer queued requests; Z3 reports no strategy (capacity is then checked with the fastest compatible strategy)",
    "no preemption",
]
us = SC.us


def judge(case, rec, V):
    state = rec["state"]
    pname = case["policy"]["name"]
    now = us(state["now"])
    tag = f".{pname}" + (".batching" if case["policy"].get("batching") else "")

    def bad(clause, detail, extra=""):
        V.append(Violation(clause, f"{pname}: {detail}; case={case}", f"policy.{clause}{tag}{extra}"))

    if rec["error"]:
        et, msg, where = rec["error"]
        bad("schedule_raises", f"schedule() raised {et}: {msg} at {where}", f".{et}.{where}")
        return
    placements = rec["placements"]
    if placements is None:
        bad("returns_none", "schedule() returned None")
        return
    decisions = [p for p in placements if p.placement_type in (Placement.PlacementType.PLACE_TASK, Placement.PlacementType.CANCEL_TASK)]
    # at most one decision per task
    seen = {}
    for p in decisions:
        seen.setdefault(p.task.unique_name, []).append(p)
    dup = {k: len(v) for k, v in seen.items() if len(v) > 1}
    if dup:
        bad("duplicate_decision", f"several decisions for {dup}")
    offered = {t.unique_name: st_ for t, st_ in (rec["offers"][0] if rec["offers"] else [])}
    before = rec["before"]
    task_by_name = {t.unique_name: (key, t) for key, t in state["tasks"].items()}
    for name, ps in seen.items():
        key, t = task_by_name.get(name, (None, None))
        if t is None:
            bad("decision_for_unknown_task", f"{name}")
            continue
        st_before = before[("t", key)][0]
        if name not in offered and st_before != "SCHEDULED":
            bad("decision_for_task_not_offered", f"{name} ({st_before}) was neither offered nor scheduled earlier; offer={sorted(offered)}")
        if st_before in ("RUNNING", "COMPLETED", "CANCELLED"):
            bad("decision_for_started_task", f"{name} is {st_before}")
    # completeness: every offered task that is not already scheduled is answered
    if pname in SC.GREEDY or pname in SC.PLANNERS:
        missing = [n for n, s in offered.items() if s != "SCHEDULED" and n not in seen]
        if missing:
            bad("offered_task_not_answered", f"no decision for {missing}")
    info = state["info"]
    for p in decisions:
        if p.placement_type != Placement.PlacementType.PLACE_TASK or not p.is_placed():
            continue
        name = p.task.unique_name
        pool = info["pools"].get(p.worker_pool_id)
        if pool is None:
            bad("unknown_pool", f"{name} placed on pool {p.worker_pool_id}")
            continue
        if p.worker_id is not None and p.worker_id not in pool["worker_ids"]:
            bad("worker_not_in_pool", f"{name}: worker {p.worker_id} is not in pool {pool['name']}")
        s = p.execution_strategy
        if s is not None:
            own = list(p.task.available_execution_strategies)
            if isinstance(s, BatchStrategy):
                ok = any(us(s.runtime) == us(o.runtime) and s.batch_size == o.batch_size and SC.demand_of(s) == SC.demand_of(o) for o in own)
            else:
                ok = any(s is o for o in own)
            if not ok:
                bad("foreign_strategy", f"{name}: strategy {s} is not one of the task's")
        if p.placement_time is None or us(p.placement_time) < now:
            bad("placement_in_the_past", f"{name} placed at {p.placement_time} < now {now}")
        elif not p.task.release_time.is_invalid() and us(p.placement_time) < us(p.task.release_time):
            bad("placement_before_release", f"{name} placed at {us(p.placement_time)} but released at {us(p.task.release_time)}")
    # joint feasibility
    placed = [p for p in decisions if p.placement_type == Placement.PlacementType.PLACE_TASK and p.is_placed()]
    if pname == "Z3":
        # no strategy is reported: nothing to sweep with (recorded in ASSUMPTIONS)
        pass
    else:
        items = SC.occupancy_items(rec, decisions)
        why = SC.capacity_violation(rec, items)
        if why:
            extra = ".with_running_or_scheduled" if any(i["kind"] != "new" for i in items) else ""
            running_names = {t.unique_name for t in state["tasks"].values() if t.state == TaskState.RUNNING}
            if any(i["kind"] == "new" and i["task"] in running_names for i in items):
                # a task that is already RUNNING was decided again and its new decision takes part in the clash (finding F30)
                extra += ".running_task_decided_again"
            if case["policy"].get("batching") and extra == "":
                # do the clashing new placements belong to tasks of one graph that depend on each other (an ancestor and its
                # descendant planned at the same instant)?  In batching mode a task for which no batch can be formed gets no
                # variables (finding F27), so the precedence chain through it is lost, and the planner emits no overlap
                # constraint for dependent tasks.
                wl = state["workload"]
                new = [i for i in items if i["kind"] == "new"]

                def reach(a, b):
                    tg = wl.get_task_graph(a.task_graph)
                    seen, todo = set(), [a]
                    while todo:
                        x = todo.pop()
                        for c in tg.get_children(x):
                            if c is b:
                                return True
                            if id(c) not in seen:
                                seen.add(id(c))
                                todo.append(c)
                    return False

                by_name = {t.unique_name: t for t in state["tasks"].values()}
                clash = [(a, b) for a in new for b in new if a is not b and a["worker"] == b["worker"] and a["start"] < b["end"] and b["start"] < a["end"]]
                if clash and all(by_name[a["task"]].task_graph == by_name[b["task"]].task_graph and
                                 (reach(by_name[a["task"]], by_name[b["task"]]) or reach(by_name[b["task"]], by_name[a["task"]])) for a, b in clash):
                    extra += ".dependent_tasks_planned_together"
            bad("plan_exceeds_capacity", f"{why}; occupancy items {[(i['task'], i['kind'], i['worker'] and state['info']['workers'][i['worker']]['name'], i['start'], i['end'], i['demand']) for i in items]}", extra)
    # side-effect freedom
    if rec["after"] != before:
        diff = [(k, before[k], rec["after"][k]) for k in before if before[k] != rec["after"].get(k)]
        kinds = sorted({k[0] for k, _a, _b in diff})
        bad("side_effect", f"schedule() changed live state: {diff[:4]}", "." + "+".join(kinds))
    return placed, offered


def execute(case):
    res = CaseResult()
    rec = SC.invoke(case, prepare=prepare_clockwork if case["policy"]["name"] == "Clockwork" else None)
    if rec["discard"]:
        res.discard = rec["discard"]
        return res
    if SC.capacity_violation(rec, SC.occupancy_items(rec, [])):
        res.discard = "prestate_not_jointly_feasible"  # the generated history is not reachable through valid decisions
        return res
    out = judge(case, rec, res.violations)
    pname = case["policy"]["name"]
    res.classes = [f"policy={pname}"] + ([case["shape"]] if case.get("shape") else [])
    if out:
        placed, offered = out
        occupied = any(t.state in (TaskState.RUNNING, TaskState.SCHEDULED) for t in rec["state"]["tasks"].values())
        res.nontrivial = len(offered) >= 2 and occupied
        res.classes.append(f"offered={min(len(offered), 4)}")
        if occupied:
            res.classes.append("occupied")
    seen, outv = set(), []
    for v in res.violations:
        if v.sig not in seen:
            seen.add(v.sig)
            outv.append(v)
    res.violations = outv[:5]
    return res


def prepare_clockwork(policy, state):
    """The simulator's start-up phase (commented out upstream): register and load every model on every worker."""
    wl = state["workload"]
    placements = policy.start(state["now"], wl.work_profiles, state["worker_pools"])
    for p in placements:
        pool = state["worker_pools"].get_worker_pool(p.worker_pool_id)
        pool.load_profile(p.work_profile, p.loading_strategy, p.worker_id)
    for pool in state["worker_pools"].worker_pools:
        pool.step(state["now"], EventTime(0, EventTime.Unit.US))


def greedy_cases(tier):
    return SC.call_cases(policies=("EDF", "FIFO", "LSF"), max_tasks=8, max_pools=3, max_workers=3, max_strategies=3)


def gurobi_cases(tier):
    @st.composite
    def s(draw):
        case = draw(SC.call_cases(policies=("ILP", "TetriSched_Gurobi"), max_tasks=5, batching=False))
        if case["policy"]["name"] == "TetriSched_Gurobi" and draw(st.integers(0, 2)) == 0:
            # a congested plan-ahead window: more independent work than one small worker can take inside a short window, no
            # deadline pressure - the planner fills the window up to its very last slot
            n = draw(st.integers(3, 5))
            now = case["now"]
            case["cluster"] = [{"name": "P0", "workers": [{"name": "P0W0", "resources": [["CPU", draw(st.integers(1, 2))]]}]}]
            case["profiles"] = [{"name": "pr0", "strategies": [{"runtime": draw(st.integers(1, 4)), "resources": {"CPU": 1}, "batch": 1}]}]
            case["graphs"] = [{"name": f"G{i}", "jobs": [{"name": f"G{i}_j0", "profile": 0, "children": [], "conditional": False, "terminal": False, "probability": 1.0}],
                               "release_time": draw(st.sampled_from([0, now])), "deadline": now + 60} for i in range(n)]
            case["completed"], case["scheduled"], case["retracted"] = [], [], []
            case["running"] = [{"graph": "G0", "job": "G0_j0", "pool": 0, "worker": 0, "strategy": 0, "elapsed": 0, "overrun": 0}] if draw(st.booleans()) else []
            case["policy"].update(enforce_deadlines=False, plan_ahead=draw(st.sampled_from([4, 6, 12])), time_discretization=draw(st.sampled_from([1, 2, 3])))
            case["shape"] = "congested_window"
        return case

    return s()


def commitment_cases(tier):
    """Planners that may not retract earlier promises, under enforced tight deadlines: the promised (SCHEDULED) tasks often
    cannot be kept any more, which sends the planners down their 'no feasible solution' paths."""
    @st.composite
    def s(draw):
        case = draw(SC.call_cases(policies=("ILP", "TetriSched_Gurobi", "TetriSched_CPLEX"), max_tasks=5, batching=False, tight_deadlines=True, max_runtime=5))
        if draw(st.booleans()):
            # the textbook way into that path: one slot, a task running on it, a second task promised the slot right after it
            # with a deadline that leaves no slack, and a newcomer; the planners reserve the running task's full runtime
            # from now (F12), so the promise cannot be kept in the model
            r1, r2, e = draw(st.integers(2, 5)), draw(st.integers(1, 4)), draw(st.integers(1, 2))
            e = min(e, r1 - 1)
            now = case["now"]
            case["cluster"] = [{"name": "P0", "workers": [{"name": "P0W0", "resources": [["CPU", 1]]}]}]
            case["profiles"] = [{"name": "pr0", "strategies": [{"runtime": r1, "resources": {"CPU": 1}, "batch": 1}]},
                                {"name": "pr1", "strategies": [{"runtime": r2, "resources": {"CPU": 1}, "batch": 1}]}]
            one = lambda n, p: [{"name": n, "profile": p, "children": [], "conditional": False, "terminal": False, "probability": 1.0}]  # noqa: E731
            case["graphs"] = [{"name": "GA", "jobs": one("GA_j0", 0), "release_time": 0, "deadline": now + 40},
                              {"name": "GB", "jobs": one("GB_j0", 1), "release_time": 0, "deadline": now + (r1 - e) + r2 + draw(st.integers(0, 1))},
                              {"name": "GC", "jobs": one("GC_j0", draw(st.integers(0, 1))), "release_time": now, "deadline": now + draw(st.integers(3, 30))}]
            case["completed"] = []
            case["running"] = [{"graph": "GA", "job": "GA_j0", "pool": 0, "worker": 0, "strategy": 0, "elapsed": e, "overrun": 0}]
            case["scheduled"] = [{"graph": "GB", "job": "GB_j0", "pool": 0, "worker": 0, "strategy": 0, "at": r1 - e}]
        case["policy"]["enforce_deadlines"] = True
        case["policy"]["retract_schedules"] = False
        if case["policy"]["name"] == "ILP":
            case["policy"]["goal"] = "max_goodput"
        return case

    return s()


def batching_cases(tier):
    return SC.call_cases(policies=("ILP", "TetriSched_CPLEX"), max_tasks=5, batching=True, max_runtime=5)


def cplex_cases(tier):
    return SC.call_cases(policies=("TetriSched_CPLEX",), max_tasks=4, max_runtime=5, batching=False)


def z3_cases(tier):
    return SC.call_cases(policies=("Z3",), max_tasks=4)


def clockwork_cases(tier):
    return SC.call_cases(policies=("Clockwork",), max_tasks=6, scheduled=False)


CHECKS = [
    Check("greedy_calls", execute, strategy=greedy_cases, budget={"quick": 3000, "thorough": 80000}),
    Check("gurobi_calls", execute, strategy=gurobi_cases, budget={"quick": 300, "thorough": 6000}),
    Check("commitment_calls", execute, strategy=commitment_cases, budget={"quick": 300, "thorough": 6000}),
    Check("batching_calls", execute, strategy=batching_cases, budget={"quick": 150, "thorough": 3000}),
    Check("cplex_calls", execute, strategy=cplex_cases, budget={"quick": 120, "thorough": 3000}),
    Check("z3_calls", execute, strategy=z3_cases, budget={"quick": 120, "thorough": 3000}),
    Check("clockwork_calls", execute, strategy=clockwork_cases, budget={"quick": 600, "thorough": 20000}),
]


# ----------------------------------------------------------------------------- (b) invocations inside end-to-end runs
def sim_execute_factory():
    from pbt import simrun, solvercap
    from pbt.simprop import classes_of

    def execute_sim(spec):
        solvercap.install()
        res = CaseResult()
        cur = {}

        def before(srec, sim_time, workload, worker_pools):
            tasks = {}
            for gname, tg in workload.task_graphs.items():
                for t in tg.get_nodes():
                    tasks[(gname, t.name)] = t
            state = {"worker_pools": worker_pools, "tasks": tasks, "now": sim_time, "info": cur["world"]["info"], "workload": workload}
            cur["state"] = state
            cur["before"] = SC.snapshot(state)

        def after(srec, sim_time, workload, worker_pools, placements):
            state = cur["state"]
            rec = {"state": state, "error": None, "placements": placements, "before": cur["before"], "after": SC.snapshot(state),
                   "offers": [list(zip(srec["offer_objs"][0], [i[1] for i in srec.get("offer_info", [])]))] if srec["offer_objs"] and len(srec.get("offer_info", [])) == len(srec["offer_objs"][0]) else [[(t, t.state.name) for t in srec["offer_objs"][0]]] if srec["offer_objs"] else []}
            if SC.capacity_violation(rec, SC.occupancy_items(rec, [])):
                res.counters["prestate_infeasible_invocations"] = res.counters.get("prestate_infeasible_invocations", 0) + 1
                return
            n0 = len(res.violations)
            out = judge({"policy": spec["policy"], "spec": spec}, rec, res.violations)
            res.counters["invocations_judged"] = res.counters.get("invocations_judged", 0) + 1
            if out and len(out[1]) >= 2:
                cur["nontrivial"] = True

        def prepare(sim, world):
            cur["world"] = world

        with solvercap.quiet():
            rec = simrun.run_world(spec, hooks={"before": before, "after": after}, prepare=prepare, max_steps=1500)
        res.classes = classes_of(rec)
        if rec.exception:
            et, msg, where = rec.exception
            if solvercap.is_licence_error(Exception(msg)):
                res.discard = "solver_licence_limit"
                return res
            if where.endswith(":schedule") or "scheduler" in where:
                res.violations.append(Violation("schedule_raises", f"{spec['policy']['name']}: {et}: {msg} at {where}; spec={spec}",
                                                f"policy.schedule_raises.{spec['policy']['name']}.{et}.{where}"))
        res.nontrivial = bool(cur.get("nontrivial"))
        seen, outv = set(), []
        for v in res.violations:
            if v.sig not in seen:
                seen.add(v.sig)
                outv.append(v)
        res.violations = outv[:5]
        return res

    return execute_sim


def greedy_worlds(tier):
    return specs.worlds(policy=specs.greedy_policy(), max_jobs=5, contention=True, flags=specs.sim_flags(variance=False))


def planner_sim_worlds(tier):
    return specs.planner_worlds()


CHECKS += [
    Check("greedy_in_sim", sim_execute_factory(), strategy=greedy_worlds, budget={"quick": 800, "thorough": 20000}),
    Check("planners_in_sim", sim_execute_factory(), strategy=planner_sim_worlds, budget={"quick": 160, "thorough": 4000}),
]


# ----------------------------------------------------------------------------- Clockwork across invocations (it keeps queues)
def exec_clockwork_history(case):
    """C15's operation histories, judged for C10's clauses only: one decision per request and invocation, no side effect on
    the live cluster, no exception."""
    from pbt.props import c15

    res = c15.execute(case)
    keep = []
    for v in res.violations:
        clause = v.sig.split(".")[1] if "." in v.sig else v.sig
        if clause in ("several_decisions_for_one_request", "side_effect") or clause.startswith("raises"):
            v.sig = "policy.history." + v.sig.split(".", 1)[1] + ".Clockwork" if "." in v.sig else v.sig
            keep.append(v)
    res.violations = keep
    return res


def clockwork_histories(tier):
    from pbt.props import c15

    return c15.history_strategy(tier)


CHECKS += [Check("clockwork_history", exec_clockwork_history, strategy=clockwork_histories, budget={"quick": 800, "thorough": 20000})]
