"""C17 - graph algorithms agree with their definitions on every DAG."""
import hashlib

from hypothesis import strategies as st

from pbt import env
from pbt.oracles import graphs as G
from pbt.runner import CaseResult, Check, Violation

env.setup()
from utils import EventTime  # noqa: E402
from workload import (  # noqa: E402
    ExecutionStrategies,
    ExecutionStrategy,
    Job,
    JobGraph,
    Resource,
    Resources,
    Task,
    TaskGraph,
    WorkProfile,
)
from workload.graph import Graph  # noqa: E402

PROPERTY = "C17"
LEVEL = "exploration"
RULE = (
    "exhaustive: every labelled DAG on <=5 nodes (quick; 29 853 graphs) / exactly 6 nodes "
    "(thorough; +3 781 503), each with three weight vectors (all 1, i+1, hash-derived 1..3); "
    "generated: Hypothesis random DAGs up to 40 nodes with shuffled insertion order, digraphs with "
    "a cycle, TaskGraph/JobGraph instances with runtimes as weights (incl. a TaskGraph grown task by task), and mutation histories of "
    "one Graph object (add_node / add_child / remove / refused add_child) re-queried after every step. Non-trivial = DAG with "
    ">= 2 sources, or a skip edge, or two source-sink paths of equal maximum weight; distinct by "
    "(n, edge set, insertion order, weights)."
)
ASSUMPTIONS = ["node weights are positive integers (the property's domain)", "reference = brute-force path enumeration (<=7 nodes) and an independent Kahn-order DP above"]


class N:
    """Opaque node object (hashable by identity, like Job/Task)."""

    __slots__ = ("i",)

    def __init__(self, i):
        self.i = i

    def __repr__(self):
        return f"n{self.i}"


def derived_weights(n, edges):
    h = hashlib.sha1(repr((n, edges)).encode()).digest()
    return [1 + h[i % 20] % 3 for i in range(n)]


def build_graph(n, edges, order):
    nodes = [N(i) for i in range(n)]
    ch, _ = G.adjacency(n, edges)
    g = Graph({nodes[i]: [nodes[c] for c in ch[i]] for i in order})
    return g, nodes


def check_dag(case, g, nodes, n, edges, weight_sets, V, label="graph"):
    """All clauses of C17 on a repository graph `g` whose node i is nodes[i]."""
    idx = {id(x): i for i, x in enumerate(nodes)}
    ch, pa = G.adjacency(n, edges)
    reach = G.reachability(n, edges)

    def bad(clause, detail):
        V.append(Violation(clause, f"[{label}] {detail}; case={case}", f"{label}.{clause}"))

    # topological order
    try:
        topo = [idx[id(x)] for x in g.topological_sort()]
        if sorted(topo) != list(range(n)):
            bad("topo_not_permutation", f"topological_sort={topo}")
        else:
            pos = {u: i for i, u in enumerate(topo)}
            for u, v in edges:
                if pos[u] > pos[v]:
                    bad("topo_order", f"edge {u}->{v} but order {topo}")
                    break
    except Exception as e:
        bad(f"topo_raises.{type(e).__name__}", f"{e}")
    # sources
    try:
        src = sorted(idx[id(x)] for x in g.get_sources())
        exp = [u for u in range(n) if not pa[u]]
        if src != exp:
            bad("sources", f"get_sources={src} expected {exp}")
        for u in range(n):
            if g.is_source(nodes[u]) != (not pa[u]):
                bad("is_source", f"is_source({u})")
                break
    except Exception as e:
        bad(f"sources_raises.{type(e).__name__}", f"{e}")
    # longest path
    paths = G.all_source_sink_paths(n, edges) if n <= 8 else None
    for w in weight_sets:
        try:
            if w is None:
                wf, wl = None, [1 if not pa[u] else 2 for u in range(n)]
            else:
                wl = w
                wf = (lambda ww: (lambda node: ww[idx[id(node)]]))(w)
            lp = [idx[id(x)] for x in (g.get_longest_path(wf) if wf else g.get_longest_path())]
            best = max(sum(wl[u] for u in p) for p in paths) if paths is not None else G.longest_path_weight_dp(n, edges, wl)
            ok_path = bool(lp) and not pa[lp[0]] and not ch[lp[-1]] and all(lp[i + 1] in ch[lp[i]] for i in range(len(lp) - 1))
            if not ok_path:
                bad("longest_path_not_a_source_sink_path", f"weights={wl} path={lp}")
            elif sum(wl[u] for u in lp) != best:
                bad("longest_path_not_maximal", f"weights={wl} path={lp} weight={sum(wl[u] for u in lp)} best={best}")
        except Exception as e:
            bad(f"longest_path_raises.{type(e).__name__}", f"weights={w}: {e}")
    # depth
    try:
        dmax = G.depths(n, edges, max)
        dmin = G.depths(n, edges, min)
        for u in range(n):
            got = g.get_node_depth(nodes[u])
            if got != dmax[u]:
                bad("depth", f"depth({u})={got} expected {dmax[u]}")
                break
            gotm = g.get_node_depth(nodes[u], min)
            if gotm != dmin[u]:
                bad("depth_min", f"min-depth({u})={gotm} expected {dmin[u]}")
                break
    except Exception as e:
        bad(f"depth_raises.{type(e).__name__}", f"{e}")
    # dependency <=> reachability either way
    try:
        pairs = [(u, v) for u in range(n) for v in range(n)] if n <= 8 else [(u, (u * 7 + 3) % n) for u in range(n)] + [(u, v) for (u, v) in edges[:10]]
        for u, v in pairs:
            exp = bool(reach[u] >> v & 1 or reach[v] >> u & 1) and u != v
            if u == v:
                continue
            if bool(g.are_dependent(nodes[u], nodes[v])) != exp:
                bad("are_dependent", f"are_dependent({u},{v}) expected {exp}")
                break
    except Exception as e:
        bad(f"are_dependent_raises.{type(e).__name__}", f"{e}")
    # breadth first over the whole graph
    try:
        bfs = [idx[id(x)] for x in g.breadth_first()]
        if sorted(bfs) != list(range(n)):
            bad("bfs_not_each_once", f"breadth_first={bfs}")
        else:
            pos = {u: i for i, u in enumerate(bfs)}
            for u, v in edges:
                if pos[u] > pos[v]:
                    bad("bfs_parent_after_child", f"edge {u}->{v} order {bfs}")
                    break
        it = [idx[id(x)] for x in g]
        if it != bfs:
            bad("iter_differs_from_bfs", f"iter={it} bfs={bfs}")
    except Exception as e:
        bad(f"bfs_raises.{type(e).__name__}", f"{e}")
    # depth first from each node
    try:
        starts = range(n) if n <= 8 else list(range(0, n, max(1, n // 6)))
        for u in starts:
            dfs = [idx[id(x)] for x in g.depth_first(nodes[u])]
            exp = sorted([u] + [v for v in range(n) if reach[u] >> v & 1])
            if sorted(set(dfs)) != exp:
                bad("dfs_wrong_set", f"depth_first({u})={dfs} expected set {exp}")
                break
            if len(dfs) != len(set(dfs)):
                bad("dfs_duplicates", f"depth_first({u})={dfs}")
                break
            if dfs[0] != u:
                bad("dfs_start", f"depth_first({u})={dfs}")
                break
        dfs_all = [idx[id(x)] for x in g.depth_first()]
        if sorted(set(dfs_all)) != list(range(n)):
            bad("dfs_all_wrong_set", f"depth_first()={dfs_all}")
        elif len(dfs_all) != n:
            bad("dfs_duplicates", f"depth_first()={dfs_all}")
    except Exception as e:
        bad(f"dfs_raises.{type(e).__name__}", f"{e}")
    return paths


def nontrivial(n, edges, paths, weight_sets):
    _, pa = G.adjacency(n, edges)
    if sum(1 for u in range(n) if not pa[u]) >= 2:
        return True
    if G.has_skip_edge(n, edges):
        return True
    if paths:
        for w in weight_sets:
            if w is None:
                continue
            tot = sorted((sum(w[u] for u in p) for p in paths), reverse=True)
            if len(tot) >= 2 and tot[0] == tot[1]:
                return True
    return False


# ----------------------------------------------------------------------------- exhaustive
def enum_dags(tier):
    sizes = [1, 2, 3, 4, 5] if tier == "quick" else [6]
    for n in sizes:
        for edges in G.all_dags(n):
            yield {"n": n, "edges": [list(e) for e in edges]}


def exec_dag(case):
    res = CaseResult()
    n = case["n"]
    edges = [tuple(e) for e in case["edges"]]
    order = case.get("order") or list(range(n))
    ws = case.get("weights") or [[1] * n, [i + 1 for i in range(n)], derived_weights(n, edges), None]
    g, nodes = build_graph(n, edges, order)
    paths = check_dag(case, g, nodes, n, edges, ws, res.violations)
    res.nontrivial = nontrivial(n, edges, paths, ws)
    res.classes.append(f"n={n}" if n <= 6 else "n>6")
    return res


# ----------------------------------------------------------------------------- random DAGs
def random_dag_strategy(tier):
    @st.composite
    def s(draw):
        n = draw(st.integers(2, 40))
        perm = draw(st.permutations(list(range(n))))  # hidden topological order
        density = draw(st.sampled_from([0.05, 0.15, 0.3, 0.6]))
        edges = []
        for i in range(n):
            for j in range(i + 1, n):
                if j - i <= 6 or draw(st.booleans()):
                    if draw(st.floats(0, 1)) < density:
                        edges.append([perm[i], perm[j]])
        order = draw(st.permutations(list(range(n))))
        w = draw(st.lists(st.integers(1, 5), min_size=n, max_size=n))
        return {"n": n, "edges": edges, "order": list(order), "weights": [w, [1] * n]}

    return s()


# ----------------------------------------------------------------------------- one graph object, mutated between queries
def history_strategy(tier):
    @st.composite
    def s(draw):
        n = draw(st.integers(2, 7))
        ops = []
        for _ in range(draw(st.integers(2, 14))):
            k = draw(st.sampled_from(["node", "edge", "edge", "edge", "remove", "check", "refused_edge"]))
            if k == "refused_edge":
                # add_child on a parent that is not (or no longer) in the graph: documented to raise ValueError
                ops.append(["refused_edge", draw(st.integers(0, n - 1)), draw(st.integers(0, n - 1))])
            elif k == "node":
                ops.append(["node", draw(st.integers(0, n - 1))])
            elif k == "edge":
                i = draw(st.integers(0, n - 2))
                ops.append(["edge", i, draw(st.integers(i + 1, n - 1))])
            elif k == "remove":
                ops.append(["remove", draw(st.integers(0, n - 1))])
            else:
                ops.append(["check"])
        return {"n": n, "ops": ops}

    return s()


def exec_history(case):
    """The same clauses, asked again after every mutation of one Graph object (nodes and edges are added incrementally by
    the loaders; `remove` is applied to source nodes only, which is all its implementation supports)."""
    res = CaseResult()
    n = case["n"]
    objs = [N(i) for i in range(n)]
    g = Graph({})
    present, edges = [], set()
    mutations_after_query = 0
    queried = False
    refused = 0
    for op in case["ops"]:
        if op[0] == "node":
            if op[1] not in present:
                g.add_node(objs[op[1]])
                present.append(op[1])
        elif op[0] == "edge":
            i, j = op[1], op[2]
            if (i, j) in edges:
                continue
            if i not in present:
                g.add_node(objs[i])
                present.append(i)
            g.add_child(objs[i], objs[j])
            if j not in present:
                present.append(j)
            edges.add((i, j))
        elif op[0] == "refused_edge":
            i, j = op[1], op[2]
            if i in present:
                continue
            refused += 1
            try:
                g.add_child(objs[i], objs[j])
                res.violations.append(Violation("unknown_parent_accepted", f"add_child({i}, {j}) accepted although {i} is not in the graph; {case}",
                                                "graph.after_mutation.unknown_parent_accepted"))
                break
            except ValueError:
                pass  # documented; the graph is the one built so far and is queried again below
        elif op[0] == "remove":
            i = op[1]
            if i not in present or any(b == i for _a, b in edges):
                continue
            g.remove(objs[i])
            present.remove(i)
            edges = {(a, b) for a, b in edges if a != i}
        if not present:
            continue
        if op[0] != "check" and queried:
            mutations_after_query += 1
        # query everything on the current state
        idx = {v: k for k, v in enumerate(present)}
        cur_edges = sorted((idx[a], idx[b]) for a, b in edges)
        k = len(present)
        check_dag(case, g, [objs[v] for v in present], k, cur_edges, [[1] * k, [v + 1 for v in range(k)]], res.violations, label="graph_history")
        queried = True
        if res.violations:
            res.violations[:] = res.violations[:3]
            for v in res.violations:
                v.sig = v.sig.replace("graph_history.", "graph.after_mutation.")
            break
    res.nontrivial = mutations_after_query >= 2
    res.classes.append("removal" if any(o[0] == "remove" for o in case["ops"]) else "growth_only")
    if refused:
        res.classes.append("refused_add_child")
    return res


# ----------------------------------------------------------------------------- cycles
def cyclic_strategy(tier):
    @st.composite
    def s(draw):
        n = draw(st.integers(1, 8))
        k = draw(st.integers(1, n))  # cycle length
        cyc = draw(st.permutations(list(range(n))))[:k]
        edges = {(cyc[i], cyc[(i + 1) % k]) for i in range(k)}
        extra = draw(st.lists(st.tuples(st.integers(0, n - 1), st.integers(0, n - 1)), max_size=10))
        edges |= set(extra)
        order = draw(st.permutations(list(range(n))))
        return {"n": n, "edges": sorted(list(e) for e in edges), "order": list(order)}

    return s()


def exec_cyclic(case):
    res = CaseResult()
    n = case["n"]
    edges = [tuple(e) for e in case["edges"]]
    assert G.has_cycle(n, edges)
    g, nodes = build_graph(n, edges, case["order"])
    res.nontrivial = True
    res.classes.append("self_loop" if any(u == v for u, v in edges) else "cycle")
    try:
        out = g.topological_sort()
        res.violations.append(Violation("cycle_not_reported", f"topological_sort returned {out} on cyclic {case}", "graph.cycle_not_reported"))
    except RuntimeError:
        pass
    except Exception as e:
        res.violations.append(Violation("cycle_wrong_error", f"{type(e).__name__}: {e} on {case}", f"graph.cycle_wrong_error.{type(e).__name__}"))
    return res


# ----------------------------------------------------------------------------- TaskGraph / JobGraph
def tg_strategy(tier):
    @st.composite
    def s(draw):
        n = draw(st.integers(1, 8))
        perm = draw(st.permutations(list(range(n))))
        edges = []
        for i in range(n):
            for j in range(i + 1, n):
                if draw(st.integers(0, 9)) < 4:
                    edges.append([perm[i], perm[j]])
        order = draw(st.permutations(list(range(n))))
        # per node 1-2 strategies with runtimes; the slowest is the weight
        rt = st.one_of(st.integers(1, 9), st.integers(1, 9), st.sampled_from([1000, 2000, 1500, 999, 3000]))
        rts = draw(st.lists(st.lists(rt, min_size=1, max_size=2), min_size=n, max_size=n))
        comp = draw(st.lists(st.integers(0, 30), min_size=n, max_size=n))
        return {"n": n, "edges": edges, "order": list(order), "runtimes": rts, "completion": comp}

    return s()


def _profile(name, runtimes):
    return WorkProfile(
        name=name,
        execution_strategies=ExecutionStrategies(
            [
                ExecutionStrategy(resources=Resources({Resource(name="CPU", _id="any"): 1}), batch_size=1,
                                  # whole milliseconds are written in milliseconds: weights are durations, not numerals
                                  runtime=EventTime(r // 1000, EventTime.Unit.MS) if r >= 1000 and r % 1000 == 0 else EventTime(r, EventTime.Unit.US))
                for r in runtimes
            ]
        ),
    )


def exec_tg(case):
    res = CaseResult()
    V = res.violations
    n = case["n"]
    edges = [tuple(e) for e in case["edges"]]
    order = case["order"]
    ch, pa = G.adjacency(n, edges)
    w = [max(r) for r in case["runtimes"]]
    jobs = [Job(name=f"j{i}", profile=_profile(f"p{i}", case["runtimes"][i])) for i in range(n)]
    # JobGraph
    jg = JobGraph(name="JG", jobs={jobs[i]: [jobs[c] for c in ch[i]] for i in order})
    paths = check_dag(case, jg, jobs, n, edges, [w], V, label="jobgraph")
    best = max(sum(w[u] for u in p) for p in paths)
    try:
        got = jg.critical_path_runtime
        if got.to(EventTime.Unit.US).time != best:
            V.append(Violation("critical_path_runtime", f"JobGraph.critical_path_runtime={got} expected {best}; case={case}", "jobgraph.critical_path_runtime"))
        got = jg.completion_time
        if got.to(EventTime.Unit.US).time != best:
            V.append(Violation("completion_time", f"JobGraph.completion_time={got} expected {best}; case={case}", "jobgraph.completion_time"))
    except Exception as e:
        V.append(Violation("jobgraph_raises", f"{type(e).__name__}: {e}; case={case}", f"jobgraph.raises.{type(e).__name__}"))
    # TaskGraph
    tasks = [Task(name=f"j{i}", task_graph="TG", job=jobs[i], deadline=EventTime(1000, EventTime.Unit.US),
                  release_time=EventTime(0, EventTime.Unit.US), completion_time=EventTime.invalid()) for i in range(n)]
    tg = TaskGraph(name="TG", tasks={tasks[i]: [tasks[c] for c in ch[i]] for i in order})
    check_dag(case, tg, tasks, n, edges, [w], V, label="taskgraph")
    try:
        got = tg.critical_path_runtime
        if got.to(EventTime.Unit.US).time != best:
            V.append(Violation("critical_path_runtime", f"TaskGraph.critical_path_runtime={got} expected {best}; case={case}", "taskgraph.critical_path_runtime"))
        src = sorted(int(t.name[1:]) for t in tg.get_source_tasks())
        snk = sorted(int(t.name[1:]) for t in tg.get_sink_tasks())
        if src != [u for u in range(n) if not pa[u]]:
            V.append(Violation("source_tasks", f"get_source_tasks={src}; case={case}", "taskgraph.source_tasks"))
        if snk != [u for u in range(n) if not ch[u]]:
            V.append(Violation("sink_tasks", f"get_sink_tasks={snk}; case={case}", "taskgraph.sink_tasks"))
        # completion time = max over sinks once every sink completed
        for i in range(n):
            tasks[i]._completion_time = EventTime(case["completion"][i], EventTime.Unit.US)
            tasks[i]._state = __import__("workload").TaskState.COMPLETED
        exp = max(case["completion"][u] for u in range(n) if not ch[u])
        got = tg.completion_time
        if got.to(EventTime.Unit.US).time != exp:
            V.append(Violation("tg_completion_time", f"TaskGraph.completion_time={got} expected {exp}; case={case}", "taskgraph.completion_time"))
    except Exception as e:
        V.append(Violation("taskgraph_raises", f"{type(e).__name__}: {e}; case={case}", f"taskgraph.raises.{type(e).__name__}"))
    # a TaskGraph that grows task by task (TaskGraph.add_task, as its docstring describes for later timestamps), queried
    # after every addition: sources, sinks and completion are those of the graph as it is now
    if not V:
        try:
            tasks2 = [Task(name=f"j{i}", task_graph="TG2", job=jobs[i], deadline=EventTime(1000, EventTime.Unit.US),
                           release_time=EventTime(0, EventTime.Unit.US), completion_time=EventTime.invalid()) for i in range(n)]
            tg2 = TaskGraph(name="TG2", tasks={})
            present, cur_edges = set(), set()
            for i in order:
                tg2.add_task(tasks2[i], [tasks2[c] for c in ch[i]])
                present |= {i} | set(ch[i])
                cur_edges |= {(i, c) for c in ch[i]}
                exp_snk = sorted(u for u in present if not any(a == u for a, _b in cur_edges))
                exp_src = sorted(u for u in present if not any(b == u for _a, b in cur_edges))
                snk = sorted(int(t.name[1:]) for t in tg2.get_sink_tasks())
                src = sorted(int(t.name[1:]) for t in tg2.get_source_tasks())
                if snk != exp_snk or src != exp_src:
                    V.append(Violation("growing_taskgraph", f"after add_task(j{i}): sinks {snk} (expected {exp_snk}), sources {src} (expected {exp_src}); case={case}",
                                       "taskgraph.after_growth.sources_or_sinks"))
                    break
                if tg2.is_complete() or tg2.is_cancelled():
                    V.append(Violation("growing_taskgraph", f"after add_task(j{i}): a graph of VIRTUAL tasks is reported complete/cancelled; case={case}",
                                       "taskgraph.after_growth.complete"))
                    break
        except Exception as e:
            V.append(Violation("taskgraph_raises", f"growing graph: {type(e).__name__}: {e}; case={case}", f"taskgraph.after_growth.raises.{type(e).__name__}"))
    res.nontrivial = nontrivial(n, edges, paths, [w])
    res.classes.append("tg_jg")
    return res


CHECKS = [
    Check("all_dags", case_timeout=60, timeout_is_violation=True, execute=exec_dag, enumerate=enum_dags, exhaustive=True, budget={"quick": 0, "thorough": 0}),
    Check("random_dags", case_timeout=60, timeout_is_violation=True, execute=exec_dag, strategy=random_dag_strategy, budget={"quick": 400, "thorough": 20000}),
    Check("cyclic", case_timeout=60, timeout_is_violation=True, execute=exec_cyclic, strategy=cyclic_strategy, budget={"quick": 500, "thorough": 20000}),
    Check("task_job_graphs", case_timeout=60, timeout_is_violation=True, execute=exec_tg, strategy=tg_strategy, budget={"quick": 600, "thorough": 30000}),
    Check("graph_history", case_timeout=60, timeout_is_violation=True, execute=exec_history, strategy=history_strategy, budget={"quick": 1500, "thorough": 60000}),
]
