"""C02 - tasks start only after release and after all predecessors finish."""
from pbt import simchecks as J
from pbt import specs
from pbt.runner import Check
from pbt.simprop import sim_execute

PROPERTY = "C02"
LEVEL = "exploration"
RULE = (
    "Hypothesis WorldSpecs with DAG grammars (chains, forks, joins, diamonds, random DAGs with shuffled insertion "
    "order, nested conditional regions), all release policies, greedy policies and planners that place "
    "not-yet-released tasks; every Task.start is judged against the monitor's own release/finish history. "
    "Non-trivial = a run in which a join (>= 2 parents) started, or a placement was decided ahead of time "
    "(TASK_NOT_READY seen or placement time > decision time); distinct by spec hash."
)
ASSUMPTIONS = ["scheduler runtime 0", "no preemption", "predecessor sets are read from the generated spec, not from the repository graph"]


def dag_worlds(tier):
    return specs.worlds(max_jobs=8, conditionals="side", flags=specs.sim_flags(variance=True))


CHECKS = [
    Check("greedy_sim", sim_execute([J.judge_c02], J.nontrivial_c02), strategy=dag_worlds, budget={"quick": 2500, "thorough": 50000}),
    Check("planner_sim", sim_execute([J.judge_c02], J.nontrivial_c02, planner=True, max_steps=1500),
          strategy=lambda tier: specs.planner_worlds(names=("ILP", "TetriSched_Gurobi"), max_jobs=4), budget={"quick": 160, "thorough": 5000}),
    Check("scripted_sim", sim_execute([J.judge_c02], J.nontrivial_c02, max_steps=1500), strategy=lambda tier: specs.scripted_worlds(zero_runtime=True),
          budget={"quick": 600, "thorough": 30000}),
]
