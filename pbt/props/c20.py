"""C20 - STRL compilation (C++ back-end): every model solution is a valid space-time allocation."""
import re

from hypothesis import strategies as st

from pbt import env, strl
from pbt.runner import CaseResult, Check, Violation

env.setup()

PROPERTY = "C20"
LEVEL = "exploration"
RULE = (
    "Hypothesis grammar of STRL trees (Objective root; Min / Max / LessThan / Scale / Choose / WindowedChoose / MalleableChoose / Allocation, nesting as the Python "
    "front-end builds them plus irregular shapes, Max over strategy variants (own machine count and duration per option), congested single-partition shapes, occasional shared sub-expressions; <= 7 Choose leaves, 1-3 partitions of quantity 1-3, "
    "start times before / at / after `now`, durations 1-4) lowered by the repository's C++ code (built by the harness with a sequential "
    "TBB shim); the dumped MILP is rebuilt as GurobiSolver.cpp would and up to 30 solutions (solution pool, zero objective) plus the "
    "optimum are fed back through populateResults(). Oracle = own Python semantics of STRL (exhaustive evaluation of every leaf "
    "decision vector). Non-trivial = a tree with a capacity conflict (the brute force cannot satisfy every leaf) or an ordering "
    "constraint; distinct by case hash."
)
ASSUMPTIONS = [
    "the model is solved with gurobipy after a translation that mirrors GurobiSolver.cpp (missing lower bound 0, indicator = binary)",
    "WindowedChoose is generated with first and last start slot on its own grid, as the Python front-end passes them (off-grid windows are "
    "rounded inconsistently by the constructor and the Max parent; what an off-grid window means is not documented)",
    "MalleableChoose: reference = any split of the requested resource-time over (partition, slot) cells of its window, each cell occupying one "
    "granularity; start = first occupied slot, end = end of the last occupied slot",
    "windowed trees have no shared sub-expressions (a shared child of a LessThan that a pass prunes is satisfiable only with the pass)",
    "LessThan over two fixed-time leaves is independent of their satisfaction (as documented in Expression.cpp)",
    "strategy variants (options of one Max with their own machine count and duration) are offered at distinct start slots: the model's variable names "
    "carry task name and start slot only, so two options of one task at the same slot cannot be told apart when a solution is read back by name",
]


def prepare_parent():
    strl.driver_binary()


# ----------------------------------------------------------------------------- generator
@st.composite
def trees(draw, gran=1, passes=None, irregular=False, windowed=False, malleable=False, strategies=False, tight=False):
    # tight: one small partition, three tasks with 2-3 options each around `now`, mostly ordered by LessThan - capacity decides which options
    # survive, which is where an over-eager pruning pass loses utility or validity
    n_parts = 1 if tight else draw(st.integers(1, 3))
    partitions = [{"id": i + 1, "q": draw(st.integers(1, 2 if tight else 3))} for i in range(n_parts)]
    now = draw(st.integers(0, 3))
    nodes = []

    def add(n):
        nodes.append(n)
        return len(nodes) - 1

    n_tasks = 3 if tight else draw(st.integers(1, 3 if (windowed or malleable) else 4))
    tasks = []
    leaves = 0
    for t in range(n_tasks):
        parts = sorted(draw(st.sets(st.sampled_from([p["id"] for p in partitions]), min_size=1, max_size=n_parts)))
        machines = draw(st.integers(1, 2))
        duration = draw(st.integers(1, 2 if tight else 4))
        utility = float(draw(st.integers(1, 3)))
        n_opts = draw(st.integers(2 if tight else 1, 3)) if (leaves < 6 or tight) else 1
        base = now + draw(st.integers(0 if tight else -1, 1 if tight else 3))
        starts = sorted({max(0, base + k * draw(st.integers(1, 2))) for k in range(n_opts)})
        if windowed and draw(st.integers(0, 2)) > 0:
            # one WindowedChoose instead of a Max over Chooses: any grid start in [start, last start]
            # the front-end passes discretisation points that are not in the past as first and last start slot
            wg = gran if gran > 1 else draw(st.sampled_from([1, 1, 2]))
            w_start = -(-max(now, base) // wg) * wg
            leaf = add({"kind": "WINDOWED", "name": f"t{t}", "parts": parts, "machines": machines, "start": w_start, "duration": duration,
                        "end": w_start + wg * draw(st.integers(0, 3 if wg == 1 else 2)), "wgran": wg, "utility": utility})
            leaves += 2
            if draw(st.booleans()):
                leaf = add({"kind": "MAX", "name": f"max{t}", "children": [leaf]})
            tasks.append(leaf)
            continue
        if malleable and draw(st.integers(0, 2)) == 0:
            wg = gran if gran > 1 else draw(st.sampled_from([1, 1, 2]))
            m_start = -(-max(now, base) // wg) * wg
            leaf = add({"kind": "MALLEABLE", "name": f"t{t}", "parts": parts[:2], "slots": draw(st.integers(1, 3)), "start": m_start,
                        "end": m_start + wg * draw(st.integers(1, 3)), "wgran": wg, "utility": utility})
            leaves += 3
            tasks.append(leaf)
            continue
        chooses = []
        # several execution strategies of one task under one Max: each option has its own machine count and duration
        # (the Python front-end builds exactly this for a task with more than one strategy)
        variants = strategies and (tight or draw(st.integers(0, 2)) > 0)
        for s_ in starts:
            if variants:
                machines, duration = draw(st.integers(1, 2)), draw(st.integers(1, 4))
            chooses.append(add({"kind": "CHOOSE", "name": f"t{t}", "parts": parts, "machines": machines, "start": s_, "duration": duration,
                                "utility": utility if not draw(st.booleans()) else float(draw(st.integers(1, 3)))}))
            leaves += 1
        shape = draw(st.sampled_from(["max", "max", "max", "choose", "scale"])) if not irregular else draw(st.sampled_from(["max", "choose", "scale", "scale_d"]))
        if shape == "choose" and len(chooses) == 1:
            tasks.append(chooses[0])
        else:
            m = add({"kind": "MAX", "name": f"max{t}", "children": chooses})
            if shape in ("scale", "scale_d"):
                m = add({"kind": "SCALE", "name": f"sc{t}", "factor": float(draw(st.integers(1, 3))), "disregard": shape == "scale_d", "children": [m]})
            tasks.append(m)
    groups = []
    pool = list(tasks)
    gi = 0
    while pool:
        kind = draw(st.sampled_from(["task", "lessthan", "lessthan"] if tight else ["task", "min", "lessthan", "lessthan", "min_lt"]))
        if kind == "task" or len(pool) == 1:
            groups.append(pool.pop(0))
        elif kind == "min":
            k = draw(st.integers(2, min(3, len(pool))))
            cs = [pool.pop(0) for _ in range(k)]
            groups.append(add({"kind": "MIN", "name": f"min{gi}", "children": cs}))
        elif kind == "lessthan":
            a, b = pool.pop(0), pool.pop(0)
            lt = add({"kind": "LESSTHAN", "name": f"lt{gi}", "children": [a, b]})
            if pool and draw(st.booleans()):
                c = pool.pop(0)
                lt = add({"kind": "LESSTHAN", "name": f"lt{gi}b", "children": [lt, c]})
            groups.append(lt)
        else:
            a, b = pool.pop(0), pool.pop(0)
            lt = add({"kind": "LESSTHAN", "name": f"lt{gi}", "children": [a, b]})
            groups.append(add({"kind": "MIN", "name": f"min{gi}", "children": [lt]}))
        gi += 1
    if not windowed and not malleable and draw(st.integers(0, 4)) == 0 and len(tasks) >= 2:
        # a shared sub-expression: one task referenced by a second parent
        shared = draw(st.sampled_from(tasks))
        other = draw(st.sampled_from([t for t in tasks if t != shared]))
        groups.append(add({"kind": "MIN", "name": "min_shared", "children": [shared, other]}))
    if draw(st.integers(0, 3)) == 0:
        p = draw(st.sampled_from(partitions))
        groups.append(add({"kind": "ALLOCATION", "name": "alloc0", "alloc": [[p["id"], draw(st.integers(1, p["q"]))]],
                           "start": now, "duration": draw(st.integers(1, 3))}))
    root = add({"kind": "OBJECTIVE", "name": "root", "children": groups})
    return {"now": now, "gran": gran, "partitions": partitions, "nodes": nodes, "root": root,
            "passes": list(passes) if passes is not None else draw(st.sampled_from(([] if tight else [[]]) + [[], ["critical_path"], ["capacity_purge"], ["critical_path", "capacity_purge"]]))}


# ----------------------------------------------------------------------------- decoding
def live_nodes(case, dump):
    """Nodes that take part in the lowered expression: parsed with utility and reachable from the root through such nodes.
    A sub-tree below a no-utility node (e.g. a LessThan one of whose children a pass pruned) may have left variables in
    the model, but nothing reads them back: they are not decisions."""
    tree = dump.get("tree") or {}
    live, todo = set(), [case["root"]]
    while todo:
        i = todo.pop()
        if i in live or (tree.get(str(i)) or {}).get("parsed") != 2:
            continue
        live.add(i)
        todo.extend(case["nodes"][i].get("children", []))
    return live


def leaf_decisions(case, dump, val):
    """Read the leaf decisions of one model solution through the variable names the C++ code gives them."""
    by_name = {v["name"]: v["id"] for v in dump["vars"]}
    dec = {}
    live = live_nodes(case, dump)
    for i, n in enumerate(case["nodes"]):
        if i not in live:
            continue
        if n["kind"] == "WINDOWED":
            chosen = []
            for vname, vid in by_name.items():
                m_ = re.match(rf"^{re.escape(n['name'])}_placed_at_(\d+)_for_", vname)
                if not m_:
                    continue
                t = int(m_.group(1))
                alloc = {}
                for pid in n["parts"]:
                    avid = by_name.get(f"{n['name']}_using_partition_{pid}_at_{t}")
                    if avid is not None and int(round(val(avid))):
                        alloc[pid] = int(round(val(avid)))
                if val(vid) > 0.5:
                    chosen.append((t, alloc))
                elif alloc:
                    dec[("ghost", i, t)] = alloc
            wi = by_name.get(f"{n['name']}_window_indicator")
            if wi is None:
                continue  # no utility: not in the model
            if len(chosen) > 1 or (val(wi) > 0.5) != (len(chosen) == 1):
                dec[("ghost", i, "indicator")] = {"window_indicator": val(wi), "chosen": chosen}
            dec[i] = chosen[0] if chosen else None
            continue
        if n["kind"] == "MALLEABLE":
            ind = by_name.get(f"{n['name']}_placed_from_{n['start']}_to_{n['end']}")
            if ind is None:
                continue
            alloc = {}
            for vname, vid in by_name.items():
                m_ = re.match(rf"^{re.escape(n['name'])}_using_partition_(\d+)_at_(\d+)$", vname)
                if m_ and int(round(val(vid))):
                    alloc[(int(m_.group(1)), int(m_.group(2)))] = int(round(val(vid)))
            if val(ind) > 0.5:
                dec[i] = alloc
            else:
                dec[i] = None
                if alloc:
                    dec[("ghost", i)] = alloc
            continue
        if n["kind"] != "CHOOSE":
            continue
        ind = by_name.get(f"{n['name']}_placed_at_{n['start']}_for_s{i}")
        if ind is None:
            continue  # no utility: not in the model
        alloc = {}
        for pid in n["parts"]:
            vid = by_name.get(f"{n['name']}_using_partition_{pid}_at_{n['start']}")
            if vid is not None:
                q = int(round(val(vid)))
                if q:
                    alloc[pid] = q
        if val(ind) > 0.5:
            dec[i] = alloc if alloc else {}
        else:
            dec[i] = None
            if alloc:
                dec[("ghost", i)] = alloc
    return dec


def check_solution(case, dump, val, objective, V, label):
    dec = leaf_decisions(case, dump, val)
    ghosts = {k: v for k, v in dec.items() if isinstance(k, tuple)}
    dec = {k: v for k, v in dec.items() if not isinstance(k, tuple)}
    tag = ".coarse_discretization" if case["gran"] > 1 else ""
    if case.get("passes"):
        tag += ".with_passes"
    if ghosts:
        V.append(Violation("unsatisfied_choose_uses_resources", f"[{label}] unsatisfied Choose nodes hold resources {ghosts}; case={case}", "strl.unsatisfied_choose_uses_resources" + tag))
        return False
    for i, a in dec.items():
        if a is not None and case["nodes"][i]["kind"] == "WINDOWED":
            t0, al = a
            n = case["nodes"][i]
            if sum(al.values()) != n["machines"] or t0 not in strl.windowed_starts(case, n):
                wrapped = ".start_slot_wrapped_below_zero" if t0 > 2 ** 31 else ""
                V.append(Violation("choose_amount", f"[{label}] WindowedChoose {i} satisfied at {t0} with allocation {al}, demand {n['machines']}, "
                                                    f"start slots {strl.windowed_starts(case, n)}; case={case}", "strl.windowed_choose_amount_or_slot" + wrapped + tag))
                return False
            continue
        if a is not None and case["nodes"][i]["kind"] == "MALLEABLE":
            n = case["nodes"][i]
            slots = strl.malleable_slots(case, n) or []
            if sum(a.values()) != n["slots"] or any(t not in slots or pid not in n["parts"] for pid, t in a):
                V.append(Violation("choose_amount", f"[{label}] MalleableChoose {i} satisfied with {a}, requested resource-time {n['slots']} over slots {slots}; case={case}",
                                   "strl.malleable_choose_amount_or_slot" + tag))
                return False
            continue
        if a is not None and sum(a.values()) != case["nodes"][i]["machines"]:
            V.append(Violation("choose_amount", f"[{label}] Choose {i} satisfied with allocation {a}, demand {case['nodes'][i]['machines']}; case={case}", "strl.choose_amount" + tag))
            return False
    valid, util, why = strl.evaluate(case, dec, live=live_nodes(case, dump))
    if not valid:
        kinds = sorted({w.split(" ")[0].lower() for w in why})
        cause = ""
        if "lessthan" in kinds and any(n["kind"] == "MALLEABLE" for n in case["nodes"]):
            # is the ordering respected if a MalleableChoose ended at the start of its last slot (F41)?  (The capacity-purge
            # pass trusts that ordering and drops the capacity constraint of the two "ordered" expressions.)
            _ok, _u, why2 = strl.evaluate(case, dec, malleable_end_shift=True, live=live_nodes(case, dump))
            left = sorted({w.split(" ")[0].lower() for w in why2})
            if not left or (left == ["capacity"] and "capacity_purge" in case.get("passes", [])):
                cause = ".malleable_end_is_start_of_last_slot"
        V.append(Violation("invalid_solution", f"[{label}] the model admits {dec}: {why}; case={case}", "strl.invalid_solution." + "+".join(kinds) + tag + cause))
        return False
    if abs(util - objective) > 1e-6:
        V.append(Violation("objective_vs_semantics", f"[{label}] model objective {objective} but the decisions {dec} are worth {util}; case={case}", "strl.objective_vs_semantics" + tag))
        return False
    # read-back through populateResults
    # GurobiSolver.cpp rounds integer and indicator variables when it stores the solution; pool solutions are only
    # integral up to the solver's tolerance
    values = {v["id"]: (float(round(val(v["id"]))) if v["type"] in (1, 2) else val(v["id"])) for v in dump["vars"]}
    out = strl.run_driver(case, values)
    if "error" in out or "result_error" in out:
        V.append(Violation("populate_results_fails", f"[{label}] {out.get('error') or out.get('result_error')}; case={case}", "strl.populate_results_fails" + tag))
        return False
    res = out["result"]
    if res["utility"] is None or abs(res["utility"] - objective) > 1e-6:
        V.append(Violation("reported_utility", f"[{label}] populateResults utility {res['utility']} != objective {objective}; case={case}", "strl.reported_utility" + tag))
        return False
    # placements: backed by satisfied leaves, exact amount, exact window
    sat = {}
    malleable_gran = {n["name"]: n["wgran"] for n in case["nodes"] if n["kind"] == "MALLEABLE"}
    for i, a in dec.items():
        if a is not None:
            n = case["nodes"][i]
            if n["kind"] == "WINDOWED":
                sat.setdefault(n["name"], []).append((a[0], a[0] + n["duration"], a[1], n["machines"]))
                continue
            if n["kind"] == "MALLEABLE":
                per = {}
                for (pid, _t), q in a.items():
                    per[pid] = per.get(pid, 0) + q
                sat.setdefault(n["name"], []).append((min(t for _p, t in a), max(t for _p, t in a) + n["wgran"], per, n["slots"]))
                continue
            sat.setdefault(n["name"], []).append((n["start"], n["start"] + n["duration"], a, n["machines"]))
    for pl in res["placements"]:
        cands = sat.get(pl["name"], [])
        match = [c for c in cands if c[0] == pl["start"] and c[1] == pl["end"]]
        got = {}
        for pid, t, q in pl["alloc"]:
            got[pid] = got.get(pid, 0) + q
        if not pl["placed"] or not match or all(got != m[2] for m in match):
            wg = malleable_gran.get(pl["name"])
            if wg and pl["placed"] and any(c[0] == pl["start"] and c[1] - wg == pl["end"] and got == c[2] for c in cands):
                # F41: right slots and amounts, but the reported end is the *start* of the last occupied slot; recorded and
                # the remaining clauses are still checked
                V.append(Violation("placement_readback", f"[{label}] placement {pl} of a MalleableChoose ends at the start of its last slot; expected {cands}; case={case}",
                                   "strl.placement_readback.malleable_end_is_start_of_last_slot"))
                continue
            V.append(Violation("placement_readback", f"[{label}] placement {pl} is not backed by a satisfied Choose {cands}; case={case}", "strl.placement_readback" + tag))
            return False
    return not V


def analyse(case, V, res, enumerate_solutions=True):
    from pbt import solvercap

    try:
        return _analyse(case, V, res, enumerate_solutions)
    except solvercap.SolverBudget as e:
        return None, f"solver budget: {e}"


def _analyse(case, V, res, enumerate_solutions=True):
    import gurobipy as gp
    from gurobipy import GRB

    from pbt import solvercap

    dump = strl.run_driver(case)
    if "error" in dump:
        return None, dump["error"]
    with solvercap.quiet():
        m, vs = strl.build_gurobi(dump)
        m.Params.MIPGap = 0
        m.optimize()
        status = m.Status
        if status == GRB.OPTIMAL:
            opt = m.ObjVal
            vals = {vid: v.X for vid, v in vs.items()}
        else:
            opt, vals = None, None
    if opt is None:
        return {"dump": dump, "opt": None, "status": status}, None
    ok = check_solution(case, dump, lambda vid: vals[vid], opt, V, "optimum")
    n_sol = 1
    if ok and enumerate_solutions:
        with solvercap.quiet():
            obj = m.getObjective()
            m.setObjective(0, GRB.MAXIMIZE)
            m.Params.PoolSearchMode = 2
            m.Params.PoolSolutions = 30
            m.Params.TimeLimit = 3
            m.optimize()
            sols = []
            for k in range(m.SolCount):
                m.Params.SolutionNumber = k
                sv = {vid: v.Xn for vid, v in vs.items()}
                # objective value of this point under the real objective
                o = 0.0
                for coef, vid in dump["objective"]["terms"]:
                    o += coef * (1.0 if vid == -1 else sv[vid])
                sols.append((sv, o))
        for sv, o in sols:
            n_sol += 1
            if not check_solution(case, dump, lambda vid, sv=sv: sv[vid], o, V, f"feasible point {n_sol}"):
                break
    res.counters["model_solutions_checked"] = res.counters.get("model_solutions_checked", 0) + n_sol
    return {"dump": dump, "opt": opt, "status": status}, None


def execute(case):
    res = CaseResult()
    V = res.violations
    info, err = analyse(case, V, res)
    if err is not None:
        if "must have at least one child with utility" in err:
            res.discard = "max_without_live_children"
        elif err.startswith("solver budget"):
            res.discard = "solver_time_budget"
        elif "time bounds wrapped below zero" in err:
            V.append(Violation("pass_wraps_time_bounds", f"{err}; case={case}", "strl.pass_wraps_time_bounds.windowed_choose." + "+".join(case.get("passes", []))))
        else:
            V.append(Violation("lowering_raises", f"parse failed: {err}; case={case}", "strl.lowering_raises." + re.sub(r"[^A-Za-z]+", "_", err)[:50]))
        return res
    tag = ".with_passes" if case.get("passes") else ""
    bf = strl.brute_force_optimum(case)
    if bf is None:
        res.discard = "brute_force_too_large"
        return res
    best, best_dec, n_vec = bf
    res.counters["decision_vectors"] = n_vec
    if info["opt"] is None:
        tag += infeasibility_cause(case)
        V.append(Violation("model_infeasible", f"the generated model has no solution (status {info['status']}) although leaving every leaf unsatisfied is valid "
                                              f"(brute-force optimum {best}); case={case}", "strl.model_infeasible" + tag))
    elif not V and abs(info["opt"] - best) > 1e-6:
        cause = infeasibility_cause(case) if info["opt"] < best else ""
        if not cause and info["opt"] < best and "critical_path" in case.get("passes", []) and any(n["kind"] == "MALLEABLE" for n in case["nodes"]) and any(
                n["kind"] == "LESSTHAN" for n in case["nodes"]):
            cause = ".malleable_time_bounds_span_whole_window"
        if not cause and info["opt"] < best and "critical_path" in case.get("passes", []) and any(
                n["kind"] == "WINDOWED" and n["duration"] % n["wgran"] for n in case["nodes"]):
            cause = ".windowed_end_bound_rounded_up_to_granularity"
        if not cause and info["opt"] < best and "critical_path" in case.get("passes", []) and unequal_max_under_lessthan(case):
            cause = ".max_of_unequal_durations_under_lessthan"
        V.append(Violation("optimum_differs", f"model optimum {info['opt']} != brute-force optimum {best} (decisions {best_dec}); case={case}",
                           "strl.optimum_differs" + (".model_lower" if info["opt"] < best else ".model_higher") + tag + cause))
    leaves = [i for i, n in enumerate(case["nodes"]) if n["kind"] in strl.LEAF_KINDS]
    all_sat_util = None
    has_order = any(n["kind"] == "LESSTHAN" for n in case["nodes"])
    # capacity conflict: the optimum leaves some task unsatisfied
    tasks = {case["nodes"][i]["name"] for i in leaves if case["nodes"][i]["start"] >= case["now"] or case["nodes"][i]["kind"] != "CHOOSE"}
    sat_tasks = {case["nodes"][i]["name"] for i, a in (best_dec or {}).items() if a is not None}
    res.nontrivial = has_order or bool(tasks - sat_tasks)
    res.classes = ["passes=" + ("+".join(case["passes"]) or "none"), "ordering" if has_order else "no_ordering",
                   "conflict" if tasks - sat_tasks else "all_tasks_satisfiable"]
    if any(n["kind"] == "WINDOWED" for n in case["nodes"]):
        res.classes.append("windowed_choose")
        if any(n["kind"] == "WINDOWED" and any(t > n["end"] for t in strl.windowed_starts(case, n)) for n in case["nodes"]):
            res.classes.append("window_rounded_past_last_start")
    return res


def const_end(case, i):
    """The end time of node i if the lowering makes it a constant, else None."""
    n = case["nodes"][i]
    k = n["kind"]
    if k in ("CHOOSE", "ALLOCATION"):
        return n["start"] + n["duration"]
    if k == "SCALE":
        return const_end(case, n["children"][0])
    if k == "LESSTHAN":
        return const_end(case, n["children"][1])
    return None


def const_start(case, i):
    n = case["nodes"][i]
    k = n["kind"]
    if k in ("CHOOSE", "ALLOCATION"):
        return n["start"]
    if k == "SCALE":
        return const_start(case, n["children"][0])
    if k == "LESSTHAN":
        return const_start(case, n["children"][0])
    return None


def unsatisfied_start_bound(case, i):
    """Upper bound of the (variable) start time of node i while it is unsatisfied."""
    n = case["nodes"][i]
    k = n["kind"]
    if k == "MAX":
        starts = []
        for c in n["children"]:
            cn = case["nodes"][c]
            if cn["kind"] == "WINDOWED":
                starts += strl.windowed_starts(case, cn)
            elif cn["start"] >= case["now"]:
                starts.append(cn["start"])
        return min(starts) if starts else None
    if k == "MALLEABLE":
        return 0  # its start variable is the sum of slot * phase-shift indicator: 0 while unsatisfied
    if k == "WINDOWED":
        starts = strl.windowed_starts(case, n)
        return min(starts) if starts else None
    if k in ("SCALE", "LESSTHAN"):
        return unsatisfied_start_bound(case, n["children"][0])
    if k == "MIN":
        vals = [unsatisfied_start_bound(case, c) for c in n["children"]]
        vals = [v for v in vals if v is not None] + [const_start(case, c) for c in n["children"] if const_start(case, c) is not None]
        return min(vals) if vals else None
    return None


def infeasibility_cause(case):
    """LessThan emits `end(first) <= start(second)` unconditionally: a constant end of the first child that lies after the
    largest start the (variable-time) second child can take while unsatisfied forces the second child to be satisfied -
    and makes the whole model infeasible when that is impossible."""
    for n in case["nodes"]:
        if n["kind"] == "LESSTHAN":
            a = const_end(case, n["children"][0])
            if a is not None and const_start(case, n["children"][1]) is None:
                ub = unsatisfied_start_bound(case, n["children"][1])
                if ub is not None and a > ub:
                    return ".unconditional_happens_before_with_constant_first_end"
    return ""


def unequal_max_under_lessthan(case):
    """A Max over Choose options of different durations (several execution strategies of one task) below a LessThan (finding F45)."""
    nodes = case["nodes"]
    below = set()
    todo = [c for n in nodes if n["kind"] == "LESSTHAN" for c in n["children"]]
    while todo:
        i = todo.pop()
        if i in below:
            continue
        below.add(i)
        todo.extend(nodes[i].get("children", []))
    for i in below:
        n = nodes[i]
        if n["kind"] == "MAX" and len({nodes[c]["duration"] for c in n["children"] if nodes[c]["kind"] == "CHOOSE"}) > 1:
            return True
    return False


def exec_passes(case):
    """Metamorphic: the optimum is the same with every subset of the pruning passes."""
    res = CaseResult()
    V = res.violations
    base = dict(case, passes=[])
    info0, err0 = analyse(base, V, res, enumerate_solutions=False)
    if err0 is not None or info0["opt"] is None:
        res.discard = "base_case_not_solvable"
        return res
    for passes in (["critical_path"], ["capacity_purge"], ["critical_path", "capacity_purge"]):
        c = dict(case, passes=passes)
        info, err = analyse(c, V, res, enumerate_solutions=False)
        name = "+".join(passes)
        if err is not None and err.startswith("solver budget"):
            res.discard = "solver_time_budget"
            return res
        if err is not None:
            why = ".max_left_with_no_utility_children_only" if "must have at least one child with utility" in err else ""
            V.append(Violation("pass_breaks_lowering", f"with passes {passes}: {err}; case={case}", f"strl.pass_breaks_lowering.{name}{why}"))
        elif info["opt"] is None:
            V.append(Violation("pass_makes_model_infeasible", f"with passes {passes} the model has no solution; without {info0['opt']}; case={case}", f"strl.pass_makes_model_infeasible.{name}"))
        elif abs(info["opt"] - info0["opt"]) > 1e-6:
            why = ""
            if info["opt"] < info0["opt"] and "critical_path" in passes and any(n["kind"] == "WINDOWED" and n["duration"] % n["wgran"] for n in case["nodes"]):
                why = ".windowed_end_bound_rounded_up_to_granularity"
            if not why and info["opt"] < info0["opt"] and "critical_path" in passes and unequal_max_under_lessthan(case):
                why = ".max_of_unequal_durations_under_lessthan"
            V.append(Violation("pass_changes_optimum", f"optimum {info['opt']} with passes {passes}, {info0['opt']} without; case={case}",
                               f"strl.pass_changes_optimum.{name}" + (".lower" if info["opt"] < info0["opt"] else ".higher") + why))
        if V:
            break
    res.nontrivial = any(n["kind"] in ("LESSTHAN", "MIN") for n in case["nodes"])
    return res


def exec_coarse(case):
    """Metamorphic: coarser discretisation may only lose utility, never validity."""
    res = CaseResult()
    V = res.violations
    fine = dict(case, gran=1)
    info0, err0 = analyse(fine, [], res, enumerate_solutions=False)
    if err0 is not None or info0["opt"] is None:
        res.discard = "base_case_not_solvable"
        return res
    info, err = analyse(case, V, res, enumerate_solutions=True)
    if err is not None:
        res.discard = "coarse_case_not_lowered"
        return res
    if not V and info["opt"] is not None and info["opt"] > info0["opt"] + 1e-6:
        V.append(Violation("coarser_grid_gains_utility", f"granularity {case['gran']} optimum {info['opt']} > granularity 1 optimum {info0['opt']}; case={case}",
                           "strl.coarser_grid_gains_utility"))
    # root cause classifier for validity losses: start times off the grid
    if V:
        g = case["gran"]
        starts = {n["start"] % g for n in case["nodes"] if n["kind"] in ("CHOOSE", "ALLOCATION")}
        durs_ok = all(n["duration"] % g == 0 for n in case["nodes"] if n["kind"] in ("CHOOSE", "ALLOCATION"))
        if len(starts) > 1:
            for v in V:
                v.sig += ".start_times_on_different_grid_phases"
        elif not durs_ok:
            for v in V:
                v.sig += ".durations_not_multiple_of_granularity"
    res.nontrivial = True
    res.classes = [f"gran={case['gran']}"]
    return res


CHECKS = [
    Check("frontend_trees", execute, strategy=lambda tier: trees(), budget={"quick": 320, "thorough": 12000}),
    Check("irregular_trees", execute, strategy=lambda tier: trees(irregular=True), budget={"quick": 128, "thorough": 4000}),
    Check("passes_metamorphic", exec_passes, strategy=lambda tier: st.booleans().flatmap(lambda w: trees(passes=[], windowed=w)), budget={"quick": 128, "thorough": 4000}),
    Check("coarse_discretization", exec_coarse, strategy=lambda tier: st.sampled_from([2, 3]).flatmap(lambda g: trees(gran=g, passes=[])), budget={"quick": 128, "thorough": 4000}),
    Check("strategy_trees", execute, strategy=lambda tier: st.booleans().flatmap(lambda irr: trees(strategies=True, irregular=irr)), budget={"quick": 256, "thorough": 8000}),
    Check("passes_strategies", exec_passes, strategy=lambda tier: trees(passes=[], strategies=True), budget={"quick": 192, "thorough": 4000}),
    Check("congested_trees", execute, strategy=lambda tier: st.booleans().flatmap(lambda v: trees(tight=True, strategies=v)), budget={"quick": 1024, "thorough": 12000}),
    Check("passes_congested", exec_passes, strategy=lambda tier: st.booleans().flatmap(lambda v: trees(passes=[], tight=True, strategies=v)), budget={"quick": 256, "thorough": 6000}),
    Check("windowed_trees", execute, strategy=lambda tier: trees(windowed=True), budget={"quick": 320, "thorough": 12000}),
    Check("malleable_trees", execute, strategy=lambda tier: trees(malleable=True, windowed=True), budget={"quick": 160, "thorough": 6000}),
]
