"""Independent reference implementations of the graph notions of C17 (no repository code)."""
from itertools import combinations


def all_dags(n):
    """Yield every labelled DAG on nodes 0..n-1 as a tuple of edges (u, v), u -> v.

    Unique decomposition: the set S of sources, a DAG on the remaining nodes R, and edges
    S x R in which every source of the sub-DAG receives at least one edge from S.
    Counts: 1, 3, 25, 543, 29281, 3781503 for n = 1..6.
    """

    def rec(nodes):
        nodes = tuple(nodes)
        if not nodes:
            yield ()
            return
        for k in range(1, len(nodes) + 1):
            for S in combinations(nodes, k):
                R = tuple(x for x in nodes if x not in S)
                if not R:
                    yield ()
                    continue
                for sub in rec(R):
                    has_parent = {v for (_, v) in sub}
                    sub_sources = [r for r in R if r not in has_parent]
                    others = [r for r in R if r in has_parent]
                    # for each r in R choose the subset of S pointing to it (non-empty for sub_sources)
                    choices = []
                    for r in R:
                        opts = []
                        lo = 1 if r in sub_sources else 0
                        for m in range(lo, 1 << len(S)):
                            opts.append(tuple((S[i], r) for i in range(len(S)) if m >> i & 1))
                        choices.append(opts)

                    def prod(i, acc):
                        if i == len(choices):
                            yield acc
                            return
                        for o in choices[i]:
                            yield from prod(i + 1, acc + o)

                    for extra in prod(0, ()):
                        yield tuple(sorted(sub + extra))

    yield from rec(range(n))


def adjacency(n, edges):
    ch = [[] for _ in range(n)]
    pa = [[] for _ in range(n)]
    for u, v in edges:
        ch[u].append(v)
        pa[v].append(u)
    return ch, pa


def reachability(n, edges):
    """reach[u] = bitmask of nodes reachable from u by >= 1 edge (transitive closure)."""
    reach = [0] * n
    for u, v in edges:
        reach[u] |= 1 << v
    changed = True
    while changed:
        changed = False
        for u in range(n):
            r = reach[u]
            acc = r
            m = r
            while m:
                low = m & -m
                acc |= reach[low.bit_length() - 1]
                m ^= low
            if acc != r:
                reach[u] = acc
                changed = True
    return reach


def has_cycle(n, edges):
    reach = reachability(n, edges)
    return any(reach[u] >> u & 1 for u in range(n))


def all_source_sink_paths(n, edges):
    ch, pa = adjacency(n, edges)
    sources = [u for u in range(n) if not pa[u]]
    paths = []

    def walk(u, path):
        if not ch[u]:
            paths.append(tuple(path))
            return
        for v in ch[u]:
            path.append(v)
            walk(v, path)
            path.pop()

    for s in sources:
        walk(s, [s])
    return paths


def longest_path_weight_dp(n, edges, w):
    """Maximum total node weight over all source->sink paths (own DP, Kahn order)."""
    ch, pa = adjacency(n, edges)
    indeg = [len(p) for p in pa]
    order = [u for u in range(n) if indeg[u] == 0]
    best = [w[u] for u in range(n)]
    i = 0
    while i < len(order):
        u = order[i]
        i += 1
        for v in ch[u]:
            if best[u] + w[v] > best[v]:
                best[v] = best[u] + w[v]
            indeg[v] -= 1
            if indeg[v] == 0:
                order.append(v)
    assert len(order) == n, "not a DAG"
    return max(best[u] for u in range(n) if not ch[u])


def depths(n, edges, func=max):
    """Depth of every node, sources have depth 1; func over the parents' depths + 1."""
    ch, pa = adjacency(n, edges)
    memo = {}

    def d(u):
        if u not in memo:
            memo[u] = 1 if not pa[u] else func(d(p) for p in pa[u]) + 1
        return memo[u]

    return [d(u) for u in range(n)]


def has_skip_edge(n, edges):
    """An edge u->v such that v is also reachable from u through another child."""
    ch, _ = adjacency(n, edges)
    reach = reachability(n, edges)
    for u, v in edges:
        for c in ch[u]:
            if c != v and reach[c] >> v & 1:
                return True
    return False
