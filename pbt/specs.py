"""Pure-data world specs (JSON-serialisable) and the Hypothesis strategies that generate them.

A WorldSpec is a dict:
  seed      int                      seed for `random` and EventTime._rng at the top of the case
  cluster   [ {name, workers:[ {name, resources:[[type, qty], ...]} ]} ]   (a repeated type = 2 instances)
  profiles  [ {name, strategies:[ {runtime, resources:{type: qty}, batch} ]} ]
  graphs    [ {name, jobs:[ {name, profile, children:[idx], conditional, terminal, probability} ],
               release:{kind, ...}, deadline_variance:[lo, hi]} ]
  policy    {name, ...options}
  flags     {scheduler_frequency, scheduler_delay, run_at_worker_free, drop_skipped_tasks,
             runtime_variance, loop_timeout, resolve_conditionals_at_submission}
"""
from hypothesis import strategies as st

TYPES = ["CPU", "GPU", "MEM"]
PROB_SETS = {
    2: [[1.0, 0.0], [0.5, 0.5], [0.25, 0.75], [0.0, 1.0], [0.75, 0.25]],
    3: [[0.5, 0.25, 0.25], [0.25, 0.25, 0.5], [1.0, 0.0, 0.0], [0.0, 0.5, 0.5]],
}


# ----------------------------------------------------------------------------- cluster
@st.composite
def clusters(draw, max_pools=3, max_workers=3, single_worker_pools=False):
    n_pools = draw(st.integers(1, max_pools))
    pools = []
    for p in range(n_pools):
        n_workers = 1 if single_worker_pools else draw(st.integers(1, max_workers))
        workers = []
        for w in range(n_workers):
            k = draw(st.integers(1, 3))
            types = draw(st.permutations(TYPES))[:k]
            resources = [[t, draw(st.integers(1, 4))] for t in types]
            if draw(st.integers(0, 4)) == 0:  # a second instance of one type
                resources.append([types[0], draw(st.integers(1, 3))])
            workers.append({"name": f"P{p}W{w}", "resources": resources})
        pools.append({"name": f"P{p}", "workers": workers})
    return pools


def worker_capacity(worker):
    cap = {}
    for t, q in worker["resources"]:
        cap[t] = cap.get(t, 0) + q
    return cap


def all_workers(cluster):
    return [w for p in cluster for w in p["workers"]]


# ----------------------------------------------------------------------------- profiles
@st.composite
def strategy_for(draw, cluster, feasible=True, max_runtime=12, zero_runtime=False, contention=False, zero_quantity=False, ms_runtime=False):
    workers = all_workers(cluster)
    if feasible:
        w = draw(st.sampled_from(workers))
        cap = worker_capacity(w)
        types = sorted(cap)
        k = draw(st.integers(1, min(2, len(types))))
        chosen = draw(st.permutations(types))[:k]
        res = {}
        for t in chosen:
            hi = cap[t]
            lo = max(1, hi - 1) if contention else 1
            res[t] = draw(st.integers(lo, hi))
    else:
        k = draw(st.integers(1, 2))
        chosen = draw(st.permutations(TYPES))[:k]
        res = {t: draw(st.integers(1, 5)) for t in chosen}
    if zero_quantity and draw(st.integers(0, 5)) == 0:
        # a demand vector that names a type with quantity 0 (ahead of the real entries): it asks for nothing of it
        extra = draw(st.sampled_from([t for t in TYPES if t not in res] or TYPES))
        if extra not in res:
            res = {extra: 0, **res}
    lo = 0 if zero_runtime else 1
    if ms_runtime and draw(st.integers(0, 5)) == 0:
        return {"runtime": 1000 * draw(st.integers(1, 2)), "resources": res, "batch": 1}  # built as EventTime(k, MS)
    return {"runtime": draw(st.integers(lo, max_runtime)), "resources": res, "batch": 1}


@st.composite
def profile_for(draw, cluster, name, feasible=True, max_strategies=3, **kw):
    n = draw(st.integers(1, max_strategies))
    strategies = [draw(strategy_for(cluster, feasible=(feasible or i == 0) if feasible else False, **kw)) for i in range(n)]
    if feasible and n > 1 and draw(st.booleans()):
        # later strategies may be infeasible alternatives (the policy must skip them)
        strategies[-1] = draw(strategy_for(cluster, feasible=False, **{k: v for k, v in kw.items() if k != "contention"}))
        # keep at least one feasible strategy anywhere in the list
        if draw(st.booleans()):
            strategies = strategies[::-1]
    return {"name": name, "strategies": strategies}


# ----------------------------------------------------------------------------- graphs
class _B:
    """Graph under construction: nodes with children indices."""

    def __init__(self):
        self.jobs = []

    def node(self, **kw):
        j = {"children": [], "conditional": False, "terminal": False, "probability": 1.0}
        j.update(kw)
        self.jobs.append(j)
        return len(self.jobs) - 1

    def edge(self, u, v):
        if v not in self.jobs[u]["children"]:
            self.jobs[u]["children"].append(v)


@st.composite
def _block(draw, b, budget, depth, conditionals, force=None):
    """Adds a block to `b`; returns (entries, exits, used)."""
    kinds = ["job", "job", "chain", "fork", "dag"]
    if conditionals and budget >= 4 and depth < 2:
        kinds += ["cond", "cond"] if conditionals in ("heavy", "side") else ["cond"]
    if budget <= 1:
        kinds = ["job"]
    kind = force if force else draw(st.sampled_from(kinds))
    if kind == "condchain":
        # [job] -> conditional region -> [more blocks]: the shape conditional-heavy checks need
        entries = exits = None
        used = 0
        if draw(st.booleans()):
            n = b.node()
            entries, exits, used = [n], [n], 1
        e, x, u = draw(_block(b, max(4, budget - used), depth, conditionals, force="cond"))
        used += u
        if entries is None:
            entries = e
        else:
            for xx in exits:
                for ee in e:
                    b.edge(xx, ee)
        exits = x
        first = True
        two_regions = budget >= 9
        while budget - used >= 1 and ((two_regions and first) or draw(st.booleans())):
            # a second conditional region right after the join of the first one, when there is room for it
            again = "cond" if first and budget - used >= 4 and (two_regions or draw(st.booleans())) else None
            first = False
            e, x, u = draw(_block(b, budget - used, depth, conditionals, force=again))
            used += u
            for xx in exits:
                for ee in e:
                    b.edge(xx, ee)
            exits = x
        return entries, exits, used
    if kind == "job":
        n = b.node()
        return [n], [n], 1
    if kind == "chain":
        e1, x1, u1 = draw(_block(b, max(1, budget // 2), depth, conditionals))
        e2, x2, u2 = draw(_block(b, max(1, budget - u1), depth, conditionals))
        for x in x1:
            for e in e2:
                b.edge(x, e)
        return e1, x2, u1 + u2
    if kind == "fork":
        k = draw(st.integers(2, 3))
        head = b.node() if draw(st.booleans()) else None
        used = 1 if head is not None else 0
        entries, exits = [], []
        for _ in range(k):
            if budget - used <= 0:
                break
            e, x, u = draw(_block(b, max(1, (budget - used) // k), depth + 1, False))
            used += u
            entries += e
            exits += x
        if head is not None:
            for e in entries:
                b.edge(head, e)
            entries = [head]
        if draw(st.booleans()) and budget - used > 0:
            join = b.node()
            used += 1
            for x in exits:
                b.edge(x, join)
            exits = [join]
        return entries, exits, used
    if kind == "dag":
        k = draw(st.integers(2, max(2, min(5, budget))))
        ids = [b.node() for _ in range(k)]
        perm = draw(st.permutations(ids))
        for i in range(k):
            for j in range(i + 1, k):
                if draw(st.integers(0, 2)) == 0:
                    b.edge(perm[i], perm[j])
        has_parent = {c for i in ids for c in b.jobs[i]["children"]}
        entries = [i for i in ids if i not in has_parent]
        exits = [i for i in ids if not b.jobs[i]["children"]]
        return entries, exits, k
    # conditional region: cond -> branches -> terminal
    k = draw(st.integers(2, 3)) if budget >= 5 else 2
    probs = draw(st.sampled_from(PROB_SETS[k]))
    cond = b.node(conditional=True)
    used = 2
    exits = []
    for i in range(k):
        length = draw(st.integers(1, 3))
        prev = cond
        for s in range(length):
            if s > 0 and budget - used - (k - i) <= 0:
                break
            nested = s > 0 and depth < 1 and budget - used >= 5 and draw(st.integers(0, 3)) == 0
            if nested:
                e, x, u = draw(_block(b, budget - used - (k - i - 1), depth + 1, "heavy"))
                # force the nested block to be a conditional region if possible: accept whatever came
                used += u
                for ee in e:
                    b.edge(prev, ee)
                # collapse exits to a single node so the branch stays a chain-like region
                if len(x) > 1:
                    j = b.node()
                    used += 1
                    for xx in x:
                        b.edge(xx, j)
                    prev = j
                else:
                    prev = x[0]
                if s == 0:
                    pass
            else:
                n = b.node(probability=probs[i] if s == 0 else 1.0)
                used += 1
                b.edge(prev, n)
                prev = n
        exits.append(prev)
    term = b.node(terminal=True)
    for x in exits:
        b.edge(x, term)
    if conditionals == "side" and budget - used >= 1 and draw(st.integers(0, 2)) == 0:
        # the branch heads also wait for an ordinary task outside the region (released by the conditional, started only
        # once that task has finished too)
        side = b.node()
        used += 1
        for c in list(b.jobs[cond]["children"]):
            b.edge(side, c)
        return [cond, side], [term], used
    return [cond], [term], used


@st.composite
def job_graphs(draw, name, n_profiles, max_jobs=8, conditionals=True, force=None):
    b = _B()
    budget = draw(st.integers(1, max_jobs))
    if force is not None:
        draw(_block(b, max(3, budget), 0, conditionals, force=force))
    elif conditionals in ("heavy", "side") and draw(st.integers(0, 4)) > 0:
        if max_jobs >= 9 and draw(st.integers(0, 3)) == 0:
            budget = max(budget, 9)  # room for two conditional regions in sequence
        draw(_block(b, max(4, budget), 0, conditionals, force="condchain"))
    else:
        draw(_block(b, budget, 0, conditionals))
    # the grammar may leave several sources/sinks: that is intended (multi-source / multi-sink)
    for i, j in enumerate(b.jobs):
        j["name"] = f"{name}_j{i}"
        j["profile"] = draw(st.integers(0, n_profiles - 1))
    # shuffled insertion order: permute the job list and renumber children
    if draw(st.booleans()):
        perm = draw(st.permutations(list(range(len(b.jobs)))))
        new_index = {old: new for new, old in enumerate(perm)}
        jobs = [None] * len(b.jobs)
        for old, j in enumerate(b.jobs):
            j = dict(j)
            j["children"] = [new_index[c] for c in j["children"]]
            jobs[new_index[old]] = j
        b.jobs = jobs
    return b.jobs


@st.composite
def releases(draw, kinds=("fixed", "fixed", "periodic", "poisson", "gamma", "closed_loop"), max_n=4):
    kind = draw(st.sampled_from(list(kinds)))
    start = draw(st.sampled_from([0, 0, 0, 1, 5, 17]))
    if kind == "fixed":
        return {"kind": "fixed", "period": draw(st.sampled_from([0, 1, 3, 10, 25])), "n": draw(st.integers(1, max_n)), "start": start}
    if kind == "periodic":
        return {"kind": "periodic", "period": draw(st.sampled_from([15, 40, 70])), "start": start}
    if kind == "poisson":
        return {"kind": "poisson", "rate": draw(st.sampled_from([0.05, 0.2, 1.0])), "n": draw(st.integers(1, max_n)), "start": start,
                "rng_seed": draw(st.integers(0, 2**16))}
    if kind == "gamma":
        return {"kind": "gamma", "rate": draw(st.sampled_from([0.05, 0.2])), "coefficient": draw(st.sampled_from([0.5, 1.0, 2.0])),
                "n": draw(st.integers(1, max_n)), "start": start, "rng_seed": draw(st.integers(0, 2**16))}
    return {"kind": "closed_loop", "concurrency": draw(st.integers(1, 3)), "n": draw(st.integers(1, max_n + 1)), "start": start}


DEADLINE_VARIANCES = [[0, 0], [0, 50], [50, 300], [1000, 1000], [10, 10]]


# ----------------------------------------------------------------------------- policies / flags
GREEDY = ["EDF", "FIFO", "LSF"]


@st.composite
def greedy_policy(draw, enforce=None):
    name = draw(st.sampled_from(GREEDY))
    pol = {"name": name}
    if name in ("EDF", "FIFO"):
        pol["enforce_deadlines"] = draw(st.booleans()) if enforce is None else enforce
    return pol


@st.composite
def sim_flags(draw, allow_timeout=True, allow_drop=True, variance=True):
    return {
        "scheduler_frequency": draw(st.sampled_from([-1, -1, 1, 3, 10])),
        "scheduler_delay": draw(st.sampled_from([0, 0, 1, 3])),
        "run_at_worker_free": draw(st.sampled_from([False, False, True])),
        "drop_skipped_tasks": draw(st.sampled_from([False, False, True])) if allow_drop else False,
        "runtime_variance": draw(st.sampled_from([0, 0, 10, 50])) if variance else 0,
        "loop_timeout": draw(st.sampled_from([None, None, None, 30, 60, 150])) if allow_timeout else None,
        "resolve_conditionals_at_submission": draw(st.sampled_from([False, False, True])),
    }


# ----------------------------------------------------------------------------- worlds
@st.composite
def worlds(
    draw,
    policy=None,
    feasible=None,
    conditionals=True,
    max_graphs=3,
    max_jobs=8,
    release_kinds=("fixed", "fixed", "periodic", "poisson", "gamma", "closed_loop"),
    flags=None,
    contention=False,
    zero_runtime=False,
    single_worker_pools=False,
    zero_quantity=False,
    ms_runtime=False,
    max_pools=3,
    max_workers=3,
    max_runtime=12,
    deadline_variances=DEADLINE_VARIANCES,
    max_releases=4,
):
    cluster = draw(clusters(max_pools=max_pools, max_workers=max_workers, single_worker_pools=single_worker_pools))
    feas = draw(st.sampled_from([True, True, True, False])) if feasible is None else feasible
    n_prof = draw(st.integers(1, 4))
    profiles = [
        draw(profile_for(cluster, f"pr{i}", feasible=feas, max_runtime=max_runtime, zero_runtime=zero_runtime, contention=contention, zero_quantity=zero_quantity, ms_runtime=ms_runtime))
        for i in range(n_prof)
    ]
    n_graphs = draw(st.integers(1, max_graphs))
    graphs = []
    for g in range(n_graphs):
        jobs = draw(job_graphs(f"G{g}", n_prof, max_jobs=max_jobs, conditionals=conditionals))
        rel = draw(releases(kinds=release_kinds, max_n=max_releases))
        graphs.append({"name": f"G{g}", "jobs": jobs, "release": rel, "deadline_variance": draw(st.sampled_from(deadline_variances))})
    pol = draw(policy if policy is not None else greedy_policy())
    fl = draw(flags if flags is not None else sim_flags())
    if any(g["release"]["kind"] == "periodic" for g in graphs) and fl["loop_timeout"] is None:
        fl["loop_timeout"] = draw(st.sampled_from([60, 150]))  # periodic release needs a horizon
    return {
        "seed": draw(st.integers(0, 2**20)),
        "cluster": cluster,
        "profiles": profiles,
        "graphs": graphs,
        "policy": pol,
        "flags": fl,
        "feasible_by_construction": feas,
    }


# ----------------------------------------------------------------------------- generated plan-ahead policy (pbt/scripted.py)
@st.composite
def scripted_policy(draw, batching=None):
    return {
        "name": "Scripted",
        "script": draw(st.lists(st.integers(0, 35), min_size=4, max_size=60)),
        "batching": draw(st.booleans()) if batching is None else batching,
        "lookahead": draw(st.sampled_from([0, 0, 5, 20])),
        "retract": draw(st.booleans()),
        "draws": draw(st.sampled_from([20, 60, 150, 400])),
    }


@st.composite
def scripted_worlds(draw, batching=None, **kw):
    args = dict(feasible=True, conditionals="heavy", max_graphs=2, max_jobs=6, max_pools=2, max_workers=2, max_runtime=8,
                release_kinds=("fixed", "fixed", "periodic", "poisson", "closed_loop"), max_releases=3,
                flags=sim_flags(allow_timeout=True, allow_drop=False))
    args.update(kw)
    pol = draw(scripted_policy(batching=batching))
    w = draw(worlds(policy=st.just(pol), **args))
    if pol["batching"]:
        for pr in w["profiles"]:
            for s_ in pr["strategies"]:
                s_["batch"] = draw(st.sampled_from([1, 2, 2, 3]))
    return w


# ----------------------------------------------------------------------------- planner policies (MILP)
@st.composite
def planner_policy(draw, names=("ILP", "TetriSched_Gurobi", "TetriSched_CPLEX"), enforce=None):
    name = draw(st.sampled_from(list(names)))
    enf = draw(st.booleans()) if enforce is None else enforce
    pol = {"name": name, "enforce_deadlines": enf, "retract_schedules": draw(st.booleans()), "lookahead": draw(st.sampled_from([0, 0, 5, 20])),
           "goal": "max_goodput"}
    if name == "ILP":
        if not enf:
            pol["goal"] = "max_slack"
        pol["release_taskgraphs"] = draw(st.booleans())
    elif name == "TetriSched_Gurobi":
        pol["release_taskgraphs"] = draw(st.booleans())
        pol["time_discretization"] = draw(st.sampled_from([1, 1, 2, 3]))
        pol["plan_ahead"] = draw(st.sampled_from([-1, 15, 25]))
    else:
        pol["time_discretization"] = draw(st.sampled_from([1, 1, 2, 3]))
        pol["plan_ahead"] = draw(st.sampled_from([-1, 15, 25]))
    return pol


def planner_worlds(names=("ILP", "TetriSched_Gurobi", "TetriSched_CPLEX"), enforce=None, **kw):
    args = dict(
        policy=planner_policy(names=names, enforce=enforce), feasible=True, conditionals=False, max_graphs=2, max_jobs=3, max_pools=2, max_workers=2,
        release_kinds=("fixed", "fixed", "poisson"), max_releases=2, max_runtime=5,
        flags=sim_flags(allow_timeout=False, variance=False), deadline_variances=[[0, 0], [50, 300], [100, 100], [1000, 1000]],
    )
    args.update(kw)
    return worlds(**args)
