"""A script-driven plan-ahead scheduling policy.

The bundled planners (ILP, TetriSched) return Placements for not-yet-released tasks at future times; with runtime variance,
deferred placements and branch resolution those plans turn out wrong and the Simulator is documented to cope
(TASK_NOT_READY / WORKER_NOT_READY re-queueing in Simulator.__handle_task_placement).  The real planners reach those paths
only rarely and are capped by the solver licence, so this policy emits *generated* plans instead: every choice comes from a
Hypothesis-drawn integer script, so cases shrink and replay.

The plans stay inside what the Simulator accepts from any BaseScheduler:
 * tasks come from Workload.get_schedulable_tasks (release_taskgraphs=True, like ILP/TetriSched), state VIRTUAL or RELEASED;
 * placement time >= the invocation time; runtime 0;
 * the strategy is one of the task's own execution strategies (or a BatchStrategy built from one, as Clockwork builds them)
   that fits an *empty* worker of the chosen pool; a pinned worker is one that the strategy fits when empty;
 * a RELEASED task that is not planned is reported as unplaced (as EDF does), a VIRTUAL one is simply not mentioned;
 * with `retract`, SCHEDULED tasks whose placement is still pending are offered again (retract_schedules=True) and are
   kept, re-planned or reported unplaced (which makes the Simulator unschedule them), as the MILP planners do.
Once the script is exhausted the policy degrades to EDF-like first-fit-now, so runs make progress and end.
"""
from copy import copy

from pbt import env  # noqa: F401  (puts the repo on sys.path)

from schedulers import BaseScheduler
from utils import EventTime
from workload import BatchStrategy, Placement, Placements, TaskState
from workload import BranchPredictionPolicy

US = EventTime.Unit.US
OFFSETS = [0, 0, 1, 1, 2, 3, 5, 8, 13]


class ScriptedPlanner(BaseScheduler):
    def __init__(self, script, batching=False, lookahead=0, retract=False, draws=None, _flags=None):
        # the attributes say what schedule() asks the Workload for: the Simulator counts the offer with them (SCHEDULER_START)
        super().__init__(preemptive=False, runtime=EventTime.zero(), lookahead=EventTime(lookahead, US), policy=BranchPredictionPolicy.ALL,
                         retract_schedules=retract, release_taskgraphs=True, _flags=_flags)
        self._script = list(script) or [0]
        self._draws = len(self._script) if draws is None else draws  # the script is read cyclically for this many draws
        self._pos = 0
        self._batching = batching
        self._retract = retract
        self._open_batches = {}  # (strategy value, pool, worker) -> [BatchStrategy, members so far]
        self.stats = {"ahead": 0, "virtual": 0, "batch_join_later": 0, "now": 0, "unplaced": 0, "retracted": 0, "replanned": 0}

    def _draw(self, n):
        """Next script value in range(n); None when the script is used up."""
        if self._pos >= self._draws:
            return None
        v = self._script[self._pos % len(self._script)] % n
        self._pos += 1
        return v

    @staticmethod
    def _fits_empty(worker, strategy):
        total = {}
        for r, q in worker.resources.resources:
            total[r.name] = total.get(r.name, 0) + q
        need = {}
        for r, q in strategy.resources.resources:
            need[r.name] = need.get(r.name, 0) + q
        return all(total.get(n, 0) >= q for n, q in need.items())

    def _options(self, task, worker_pools):
        """(pool, strategy, [workers that fit it when empty]) triples."""
        out = []
        for pool in worker_pools.worker_pools:
            for strategy in task.available_execution_strategies:
                ws = [w for w in pool.workers if self._fits_empty(w, strategy)]
                if ws:
                    out.append((pool, strategy, ws))
        return out

    def schedule(self, sim_time, workload, worker_pools):
        tasks = workload.get_schedulable_tasks(
            time=sim_time, lookahead=self.lookahead, preemption=False, retract_schedules=self._retract, worker_pools=worker_pools,
            policy=BranchPredictionPolicy.ALL, release_taskgraphs=True,
        )
        ok_states = (TaskState.VIRTUAL, TaskState.RELEASED) + ((TaskState.SCHEDULED,) if self._retract else ())
        tasks = sorted((t for t in tasks if t.state in ok_states), key=lambda t: t.unique_name)
        plan_pools = copy(worker_pools)
        placements = []
        for task in tasks:
            if task.state == TaskState.SCHEDULED:
                # retraction (as ILP/TetriSched with retract_schedules): keep the plan, re-plan it, or give it up
                mode = self._draw(4)
                if mode is None or mode == 0:
                    continue
                if mode >= 2:
                    placements.append(Placement.create_task_placement(task=task))
                    self.stats["retracted"] += 1
                    continue
                self.stats["replanned"] += 1
                released = False
                mode = 1
            else:
                released = task.state == TaskState.RELEASED
                mode = self._draw(4)
            if mode is None:
                mode = 0 if released else 3
            # 0: first-fit now (released only)   1,2: planned placement   3: not planned
            if mode == 0 and not released:
                mode = 1
            if mode == 0:
                done = False
                for strategy in task.available_execution_strategies:
                    for pool in plan_pools.worker_pools:
                        if pool.can_accomodate_strategy(strategy):
                            pool.place_task(task, execution_strategy=strategy)
                            placements.append(Placement.create_task_placement(task=task, placement_time=sim_time, worker_pool_id=pool.id,
                                                                              execution_strategy=strategy))
                            done = True
                            break
                    if done:
                        break
                if done:
                    self.stats["now"] += 1
                else:
                    placements.append(Placement.create_task_placement(task=task))
                    self.stats["unplaced"] += 1
                continue
            if mode == 3:
                if released:
                    placements.append(Placement.create_task_placement(task=task))
                    self.stats["unplaced"] += 1
                continue
            opts = self._options(task, worker_pools)
            if not opts:
                if released:
                    placements.append(Placement.create_task_placement(task=task))
                continue
            pool, strategy, ws = opts[self._draw(len(opts)) or 0]
            offsets = OFFSETS + [21, 34] if self._retract else OFFSETS
            off = offsets[self._draw(len(offsets)) or 0]
            pin = self._draw(len(ws) + 1) or 0
            worker = ws[pin - 1] if pin else None
            chosen = strategy
            if self._batching and strategy.batch_size > 1:
                worker = worker or ws[0]  # batches are pinned to a worker, as Clockwork pins them
                key = (str(strategy.resources), strategy.batch_size, strategy.runtime.time, pool.id, worker.id)
                entry = self._open_batches.get(key)
                if entry is None or entry[1] >= strategy.batch_size or (self._draw(3) == 0):
                    entry = [BatchStrategy(execution_strategy=strategy), 0]
                    self._open_batches[key] = entry
                elif off:
                    self.stats["batch_join_later"] += 1
                entry[1] += 1
                chosen = entry[0]
            placements.append(Placement.create_task_placement(
                task=task, placement_time=sim_time + EventTime(off, US), worker_pool_id=pool.id,
                worker_id=worker.id if worker is not None else None, execution_strategy=chosen))
            self.stats["ahead"] += 1
            if not released:
                self.stats["virtual"] += 1
        return Placements(runtime=EventTime.zero(), true_runtime=EventTime.zero(), placements=placements)
