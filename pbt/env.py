"""Locate the repository under test, make it importable and silence its loggers.

Must be imported (and `setup()` called) before any module of the repository is
imported: `utils.setup_logging` is replaced *before* `simulator`, `workload`, ...
bind it with `from utils import setup_logging`.

Guard: the harness adds no source hooks to the repository; everything is done with
class-level wrappers installed from here (see DESIGN.md 2.2).
"""
import logging
import os
import sys

VERIF_DIR = os.path.dirname(os.path.dirname(os.path.abspath(__file__)))
REPO = os.environ.get("VERIF_REPO", "/repo")
WORK_DIR = os.path.join(VERIF_DIR, ".work")

_done = False


class CsvCapture(logging.Handler):
    """In-memory capture of the rows written to a `*_CSV` logger."""

    def __init__(self):
        super().__init__(level=logging.DEBUG)
        self.rows = []

    def emit(self, record):
        try:
            self.rows.append(record.getMessage())
        except Exception:  # pragma: no cover
            self.rows.append("<unformattable>")


CSV = CsvCapture()


def _quiet_logger(name, fmt=None, date_fmt=None, log_dir=None, log_file=None,
                  log_level="debug"):
    logger = logging.getLogger(name)
    if getattr(logger, "_verif_ready", False):
        return logger
    logger.propagate = False
    for h in list(logger.handlers):
        logger.removeHandler(h)
    if name.endswith("_CSV"):
        logger.setLevel(logging.DEBUG)
        logger.addHandler(CSV)
    else:
        # Above CRITICAL: isEnabledFor() is False for every level, so the repository
        # never formats its (expensive) log records.
        logger.setLevel(logging.CRITICAL + 10)
        logger.addHandler(logging.NullHandler())
    logger._verif_ready = True
    return logger


def setup():
    global _done
    if _done:
        return
    if not os.path.isdir(REPO):
        print(f"harness error: repository {REPO} not found", file=sys.stderr)
        sys.exit(2)
    if REPO not in sys.path:
        sys.path.insert(0, REPO)
    os.makedirs(WORK_DIR, exist_ok=True)
    import utils  # the repository's utils.py

    if not hasattr(utils, "EventTime"):
        print("harness error: imported a foreign `utils` module", file=sys.stderr)
        sys.exit(2)
    utils._verif_orig_setup_logging = utils.setup_logging
    utils.setup_logging = _quiet_logger
    # gurobi/cplex print banners on stdout unless told otherwise; handled per solver.
    _done = True


def reset_case(seed: int):
    """Reset the repository's global mutable state at the top of every case."""
    import random

    import utils

    random.seed(seed)
    utils.EventTime._rng = random.Random(seed)
    CSV.rows = []
