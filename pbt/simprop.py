"""Shared plumbing for the end-to-end (simulation) properties."""
from pbt import simrun
from pbt.runner import CaseResult, Check, Violation


def classes_of(rec):
    spec = rec.spec
    c = [f"policy={spec['policy']['name']}"]
    if rec.abort:
        c.append("abort=" + rec.abort[0])
    if rec.exception:
        c.append("crashed")
    for g in spec["graphs"]:
        c.append("release=" + g["release"]["kind"])
        if any(j.get("conditional") for j in g["jobs"]):
            c.append("has_conditional")
            break
    if rec.mon.n_deferrals["WORKER_NOT_READY"]:
        c.append("worker_not_ready")
    if rec.mon.n_deferrals["TASK_NOT_READY"]:
        c.append("task_not_ready")
    if rec.mon.n_deferrals.get("JOIN_WAITS_WITH_CANCELLED_PARENT"):
        c.append("join_waits_with_cancelled_parent")
    st_ = getattr(rec.world.get("policy"), "stats", None) if isinstance(getattr(rec, "world", None), dict) else None
    if st_:
        if st_["virtual"]:
            c.append("planned_unreleased_task")
        if st_["batch_join_later"]:
            c.append("batch_member_planned_later")
        if st_.get("retracted"):
            c.append("plan_retracted")
        if st_.get("replanned"):
            c.append("plan_replaced")
    if rec.mon.max_resident >= 2:
        c.append("shared_worker")
    if spec["flags"].get("loop_timeout") is not None:
        c.append("timeout_set")
    if spec.get("any_capacity"):
        c.append("any_id_capacity_instance")
    return sorted(set(c))


def sim_execute(judges, nontrivial, hooks=None, prepare=None, extra=None, judge_partial=True, planner=False, max_steps=4000):
    def execute(spec):
        if planner:
            from pbt import solvercap

            solvercap.install()
            with solvercap.quiet():
                rec = simrun.run_world(spec, hooks=hooks, prepare=prepare, max_steps=max_steps)
            if rec.exception and solvercap.is_licence_error(Exception(rec.exception[1])):
                res = CaseResult()
                res.discard = "solver_licence_limit"
                return res
        else:
            rec = simrun.run_world(spec, hooks=hooks, prepare=prepare, max_steps=max_steps)
        res = CaseResult()
        res.classes = classes_of(rec)
        res.counters = {
            "tasks": len(simrun.final_tasks(rec)),
            "clock_steps": rec.mon.n_steps,
            "policy_invocations": len(rec.mon.sched),
            "ledger_ops": rec.mon.ledger_ops,
        }
        for j in judges:
            res.violations.extend(j(rec))
        res.nontrivial = bool(nontrivial(rec))
        if extra:
            extra(rec, res)
        return res

    return execute
