"""Shared plumbing for the end-to-end (simulation) properties."""
from pbt import simrun
from pbt.runner import CaseResult, Check, Violation


def classes_of(rec):
    spec = rec.spec
    c = [f"policy={spec['policy']['name']}"]
    if rec.abort:
        c.append("abort=" + rec.abort[0])
    if rec.exception:
        c.append("crashed")
    for g in spec["graphs"]:
        c.append("release=" + g["release"]["kind"])
        if any(j.get("conditional") for j in g["jobs"]):
            c.append("has_conditional")
            break
    if rec.mon.n_deferrals["WORKER_NOT_READY"]:
        c.append("worker_not_ready")
    if rec.mon.n_deferrals["TASK_NOT_READY"]:
        c.append("task_not_ready")
    if rec.mon.max_resident >= 2:
        c.append("shared_worker")
    if spec["flags"].get("loop_timeout") is not None:
        c.append("timeout_set")
    return sorted(set(c))


def sim_execute(judges, nontrivial, hooks=None, prepare=None, extra=None, judge_partial=True):
    def execute(spec):
        rec = simrun.run_world(spec, hooks=hooks, prepare=prepare)
        res = CaseResult()
        res.classes = classes_of(rec)
        res.counters = {
            "tasks": len(simrun.final_tasks(rec)),
            "clock_steps": rec.mon.n_steps,
            "policy_invocations": len(rec.mon.sched),
            "ledger_ops": rec.mon.ledger_ops,
        }
        for j in judges:
            res.violations.extend(j(rec))
        res.nontrivial = bool(nontrivial(rec))
        if extra:
            extra(rec, res)
        return res

    return execute
