#!/venv/bin/python
"""Entry point: run_check.py --property Cxx --tier quick|thorough | --replay FILE

Environment: VERIF_SEED (int, default 1), VERIF_TIER (overridden by --tier),
VERIF_REPO (default /repo), VERIF_NPROC (default 16), VERIF_SCALE (case-budget multiplier).
"""
import argparse
import os
import sys

for _v in ("OMP_NUM_THREADS", "OPENBLAS_NUM_THREADS", "MKL_NUM_THREADS", "NUMEXPR_NUM_THREADS"):
    os.environ.setdefault(_v, "1")

sys.path.insert(0, os.path.dirname(os.path.abspath(__file__)))


def main():
    ap = argparse.ArgumentParser()
    ap.add_argument("--property")
    ap.add_argument("--tier", default=os.environ.get("VERIF_TIER", "quick"), choices=["quick", "thorough"])
    ap.add_argument("--replay")
    ap.add_argument("--replay-dir", action="store_true", help="replay the saved regression corpus of --property")
    ap.add_argument("--check", help="run only this sub-check (no evidence written)")
    args = ap.parse_args()
    try:
        seed = int(os.environ.get("VERIF_SEED", "1"))
    except ValueError:
        seed = 1
    from pbt import env, runner

    env.setup()
    if args.replay:
        return runner.replay(args.replay)
    if not args.property:
        ap.error("--property or --replay required")
    return runner.run_property(args.property.upper(), args.tier, seed, only=args.check)


if __name__ == "__main__":
    try:
        rc = main()
    except SystemExit:
        raise
    except BaseException:
        import traceback

        traceback.print_exc()
        rc = 2
    sys.exit(rc)
